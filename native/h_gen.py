"""Native bounded differentials of the whole pipeline (labelled `bounded`): real parse_source / ExperimentEvaluator /
generate_code vs the reference semantics in spec/dsl_ref.py on generated programs, inputs and token-level mutants."""
import ast as pyast
import builtins
import contextlib
import io
import json
import os
import random

from native.helper import register, outcome, enc
from spec import dsl_ref, lex_ref

SINK = io.StringIO()


class Budget:
    """progress journal of a harness.  After every recorded failure the partial result is written to $VERIF_JOURNAL, and at
    every program a heartbeat file is touched.  A product call that never returns (compiled code does not see signals; a
    structure growing from call to call) cannot be interrupted from inside: the verifier's watchdog (vcore/native.py) kills
    the helper once the heartbeat has been silent for WATCHDOG_S seconds and, if failures were journalled, takes the journal
    as the result.  A harness that keeps making progress is never cut short, whatever it has found so far, so every clause
    keeps its full exploration."""

    def __init__(self, req, snapshot=None):
        import time
        self.clock = time.monotonic
        self.last = 0.0
        self.snapshot = snapshot
        self.path = os.environ.get("VERIF_JOURNAL")
        self.beat(force=True)

    def beat(self, force=False):
        if not self.path:
            return
        now = self.clock()
        if force or now - self.last > 1.0:
            self.last = now
            try:
                with open(self.path + ".hb", "w") as f:
                    f.write(str(now))
            except Exception:      # noqa
                pass

    def stop(self, fails):
        self.beat()
        return False

    def failed(self):
        if not self.path or self.snapshot is None:
            return
        try:
            d = self.snapshot()
            d["killed"] = True
            with open(self.path + ".tmp", "w") as f:
                json.dump(d, f, default=lambda o: len(o) if isinstance(o, (set, frozenset)) else str(o))
            os.replace(self.path + ".tmp", self.path)
        except Exception:      # noqa - the journal is best effort
            pass


def quiet(fn, *a, **k):
    with contextlib.redirect_stdout(SINK), contextlib.redirect_stderr(SINK):
        return fn(*a, **k)


def real_to_spec(node):
    """convert the product's pydantic AST into the spec AST form"""
    from pyab_experiment.data_structures import syntax_tree as st

    def term(t):
        if isinstance(t, st.Identifier):
            return ["id", t.name]
        if isinstance(t, (tuple, list)):
            # pydantic's tuple validator is shallow: a nested tuple stays the list the grammar action built.  Either
            # container is a faithful carrier of the members; the generator must render both as tuples (generator link)
            return ["tuple", [term(x) for x in t]]
        return ["lit", t]

    def pred(p):
        if isinstance(p, st.TerminalPredicate):
            op = {"EQ": "==", "NE": "!=", "GT": ">", "LT": "<", "GE": ">=", "LE": "<=", "IN": "in", "NOT_IN": "not_in"}[p.logical_operator.name]
            return ["cmp", op, term(p.left_term), term(p.right_term)]
        k = p.boolean_operator.name.lower()
        if k == "not":
            return ["not", pred(p.left_predicate)]
        return [k, pred(p.left_predicate), pred(p.right_predicate)]

    def cond(c):
        if isinstance(c, list):
            return ["return", [[g.group_definition, g.group_weight] for g in c]]
        kind = c.conditional_type.name
        tail = None if c.false_branch is None else cond(c.false_branch)
        if kind == "IF":
            return ["if", pred(c.predicate), cond(c.true_branch), tail]
        if kind == "ELIF":
            return ["elif", pred(c.predicate), cond(c.true_branch), tail]
        return ["else", cond(c.true_branch)]
    return {"id": node.id, "salt": node.salt, "splitters": node.splitting_fields, "body": cond(node.conditions)}


def same_value(a, b):
    """equal value AND equal type, recursively (weights compare by value: 1 == 1.0 is the same weight)"""
    if isinstance(a, list) and isinstance(b, list):
        return len(a) == len(b) and all(same_value(x, y) for x, y in zip(a, b))
    if isinstance(a, dict) and isinstance(b, dict):
        return a.keys() == b.keys() and all(same_value(a[k], b[k]) for k in a)
    return type(a) is type(b) and a == b


def same_ast(real, ref):
    def strip_w(c):
        # weights: value equality only
        if c is None:
            return None
        if c[0] == "return":
            return ["return", [[v, float(w)] for v, w in c[1]]]
        if c[0] == "else":
            return ["else", strip_w(c[1])]
        return [c[0], c[1], strip_w(c[2]), strip_w(c[3])]
    a = dict(real, body=strip_w(real["body"]))
    b = dict(ref, body=strip_w(ref["body"]))
    return same_value(a, b)


def call_outcome(fn, env):
    r = outcome(lambda: quiet(fn, **env))
    if r["outcome"] == "return":
        return ("group", r)
    return ("raise", r["exc"])


def dec_value(r):
    v = r["value"]
    if isinstance(v, dict) and "__float__" in v:
        return float(v["__float__"])
    if isinstance(v, dict) and "__int__" in v:
        return int(v["__int__"])
    return v


FIXED_PROGRAMS = [
    'def f1 { splitters: uid if a in (lo, 5, hi) { return "A" weighted 1, "B" weighted 1 } else { return "C" weighted 1 } }',
    'def f2 { splitters: uid if (a, 1) == (lo, (hi, 2)) { return "A" weighted 1 } else { return "B" weighted 1, "C" weighted 2 } }',
    'def f3 { salt: "s" splitters: country, uid if age >= 21 and country in ("US", "CA") { return "control" weighted 1, "variant_a" weighted 2, "variant_b" weighted 2 } else if country not in ("US", "CA") { return "int_control" weighted 1, "int_variant" weighted 1 } else { return "default" weighted 1 } }',
    'def f4 { splitters: uid if x in (1) { return 1 weighted 1, 1.0 weighted 1, "1" weighted 1 } else if x >= 1 { return 7 weighted 1, 7.0 weighted 1 } else { return 0.0 weighted 1, 0 weighted 1 } }',
    'def f5 { splitters: uid if not (a == 1 or b == 1) { return "n" weighted 1 } else if (a == 1 or b == 1) and c == 1 { return "m" weighted 1 } else if a == 1 or b == 1 and c == 1 { return "k" weighted 1 } }',
    'def f6 { splitters: uid if t >= 1 { if c == "fr" { return "fr" weighted 1 } else if c == "de" { return "de" weighted 1 } } else if t >= 0 { return "outer_elif" weighted 1 } else { return "outer_else" weighted 1 } }',
    'def f7 { salt: "\'s\'" splitters: uid return "\'sale\'" weighted 1, \'"y"\' weighted 1, "rock \'n\'" weighted 1, "{x}" weighted 1, "a{{b" weighted 1 }',
    'def f8 { salt: "{args!r:.1}+x+{0}" splitters: uid if s == "\\\' or 1): #" { return "A" weighted 1 } else { return "B" weighted 1, "\\" weighted 1 } }',
    'def f9 { splitters: Bucket, account, _env, userId, user_id return "A" weighted 1, "B" weighted 1, "C" weighted 1, "D" weighted 1, "E" weighted 1 }',
    'def f11 { splitters: account_id, id, uid_x, uid return "A" weighted 1, "B" weighted 1, "C" weighted 1, "D" weighted 1 }',
    'def f12 { splitters: uid if 5 < x { return "gt" weighted 1 } else if 5 <= x { return "eq" weighted 1 } else if -2 >= x { return "le" weighted 1 } else if "m" > x { return "s" weighted 1 } else { return "rest" weighted 1 } }',
    'def f13 { splitters: uid if not a == 1 and b == 1 { return "p" weighted 1 } else if not a == 1 or b == 1 { return "q" weighted 1 } else { return "r" weighted 1 } }',
    'def f14 { splitters: uid if x in ((1, 2)) { return "nested" weighted 1 } else if y == (("a")) { return "nested2" weighted 1 } else if z in ((1, 2), 3) { return "mixed" weighted 1 } else { return "no" weighted 1 } }',
    'def f15 { salt: " v2 " splitters: uid return "A" weighted 1, "B" weighted 1, "C" weighted 1 }',
    'def f16 { splitters: uid if x == 1 { return "a" weighted 0, "b" weighted 0 } else if x in (2, 3, 4, 5) { return "run" weighted 1 } else if x not in (7, 8, 9) { return "c" weighted 1, "d" weighted 0.0 } else { return "e" weighted 1 } }',
    'def f10 { salt: "\U0001F680x" splitters: uid return "A" weighted 1, "B" weighted 1 }',
    # a literal whose text equals what str() / repr() shows for a term rendered earlier in the same program (identifier model,
    # tuple, number, other string): each must still be rendered as itself
    'def f17 { splitters: uid if country == "DE" { return "de" weighted 1 } else if region == "name=\'country\'" { return "model-text" weighted 1 } else if region == "country" { return "field-name" weighted 1 } '
    'else if pair in ("US", "CA") { return "tuple" weighted 1 } else if pair == "(\'US\', \'CA\')" { return "tuple-text" weighted 1 } else if pair == "[\'US\', \'CA\']" { return "list-text" weighted 1 } '
    'else if n == 1 { return "one" weighted 1 } else if n == "1" { return "one-text" weighted 1 } else if n == 1.0 { return "one-float" weighted 1 } else if n == "1.0" { return "float-text" weighted 1 } '
    'else if s == "x" { return "x" weighted 1 } else if s == "\'x\'" { return "quoted-x" weighted 1 } else { return "rest" weighted 1 } }',
    # the same label listed more than once keeps every slot in place; weights whose decimals start with 0, whole and round weights
    'def f18 { splitters: uid if x == 1 { return "blue" weighted 1, "green" weighted 1, "blue" weighted 1, "red" weighted 0, "green" weighted 2 } else { return "A" weighted 1, "B" weighted 2, "A" weighted 3 } }',
    'def f19 { splitters: uid if x == 1 { return "x" weighted 1.05, "y" weighted 20.02, "z" weighted 0.05 } else if x == 2 { return "w" weighted 10.0, "v" weighted 100, "u" weighted 0.0, "t" weighted 1000.001 } '
    'else { return 1.0 weighted 10.05, 10 weighted 1.0, "10.0" weighted 100.0 } }',
    # salts that look like template / interpolation syntax are plain text
    'def f20 { salt: "$tenant" splitters: uid return "A" weighted 1, "B" weighted 1, "C" weighted 1 }',
    'def f21 { salt: "$str" splitters: uid, tenant return "A" weighted 1, "B" weighted 1, "C" weighted 1 }',
    'def f22 { salt: "${uid}%(uid)s{uid}$uid" splitters: uid return "A" weighted 1, "B" weighted 1, "C" weighted 1 }',
    # text that Unicode normalisation (NFC / NFKC / case folding) would rewrite is kept exactly: salts, labels and literals are code points
    'def f27 { salt: "cafe\u0301-2024 \uff5b\ufb01\u212a" splitters: uid if c == "e\u0301" { return "re\u0301gime B" weighted 1, "r\u00e9gime B" weighted 1 } else if c == "\u00e9" { return "composed" weighted 1 } '
    'else if c == "\u212a" { return "kelvin" weighted 1 } else if c == "K" { return "K" weighted 1 } else if c == "\u0130" { return "dotted-I" weighted 1 } else if c == "i\u0307" { return "i-dot" weighted 1 } '
    'else { return "\uff21" weighted 1, "A" weighted 1, "\u00c5" weighted 1, "\u212b" weighted 1 } }',
    'def f24 { salt: "a\tb\x0cc\u2028d\x85e\x1cf\rg  h" splitters: uid if x == "p\tq" { return "tab" weighted 1 } else if x == "p    q" { return "spaces" weighted 1 } else if x == "p\x0bq\u2029r" { return "vt" weighted 1 } else { return "A" weighted 1, "B" weighted 1 } }',
    'def f25 { splitters: uid if code in "FR,DE,IT" { return "eu" weighted 1 } else if code not in "xyz" { return "notxyz" weighted 1 } else if "a" in tags { return "tagged" weighted 1 } else { return "rest" weighted 1 } }',
    'def f26 { splitters: type, match, _ if case == 1 and _x == 2 or soft in (type, match) { return "A" weighted 1, "B" weighted 1 } else if print == 3 and len != 4 and id == "x" { return "builtin-names" weighted 1 } else { return "C" weighted 1 } }',
    'def f23 { salt: "2024" splitters: uid if z == "02134" { return "zip" weighted 1 } else if z == "1e5" { return "exp" weighted 1 } else if z == " 12 " { return "pad" weighted 1 } else if z == "inf" { return "inf" weighted 1 } else { return "A" weighted 1, "B" weighted 1 } }',
]


def big_programs():
    """programs at the size bounds C07 names: 64 groups, else-if chains of 60, nesting 12, boolean chains of 60"""
    out = []
    out.append("def big_groups { splitters: uid return " + ", ".join('"g%d" weighted %d' % (i, 1 + i % 3) for i in range(64)) + " }")
    for n in (7, 8, 9, 10, 16, 17, 25, 31, 33):       # group counts around typical wrapping widths
        out.append("def big_groups%d { splitters: uid return " % n + ", ".join('"g%d" weighted %d' % (i, 1 + i % 4) for i in range(n)) + " }")
    chain = 'if x == 0 { return "c0" weighted 1 }' + "".join(' else if x == %d { return "c%d" weighted 1, "d%d" weighted 1 }' % (i, i, i) for i in range(1, 60)) + ' else { return "rest" weighted 1 }'
    out.append("def big_chain { splitters: uid " + chain + " }")
    nest = 'return "leaf" weighted 1'
    for i in range(12):
        nest = 'if x >= %d { %s } else { return "n%d" weighted 1 }' % (i, nest, i)
    out.append("def big_nest { splitters: uid " + nest + " }")
    conj = " and ".join("x != %d" % i for i in range(100, 160))
    disj = " or ".join("x == %d" % i for i in range(60))
    out.append('def big_bool { splitters: uid if %s { return "A" weighted 1 } else if %s { return "B" weighted 1 } else { return "C" weighted 1 } }' % (conj, disj))
    out.append("def big_tuple { splitters: uid if x in (" + ", ".join(str(i) for i in range(64)) + ') { return "in" weighted 1 } else { return "out" weighted 1 } }')
    out.append("def big_splitters { splitters: " + ", ".join("f%d" % i for i in range(32)) + ' return "A" weighted 1, "B" weighted 1 }')
    return out


SPECIAL_VALUES = [True, False, None, 1, "1", 1.0, "café", "josé", "", "x" * 500, "\x00", "'", "\\", 10 ** 40, -0.0, 1e300,
                  # text that LOOKS numeric to one str predicate and not to another (isdigit / isdecimal / isnumeric / int() / float()), and
                  # numerals beyond int()'s text-conversion limit: values are never parsed, only printed
                  "\u00b2", "12\u00b2", "\u2460", "9" * 5000, "\u0663", "\uff11\uff12", " 7", "+5", "007", "1_000", "1e3", "nan", "inf", "\u0bf0"]


@register("pipeline_diff")
def pipeline_diff(req):
    from pyab_experiment.experiment_evaluator import ExperimentEvaluator
    from pyab_experiment.utils.wraper_functions import parse_source, generate_code
    rnd = random.Random(req.get("seed", 0))
    count = req.get("count", 150)
    limit = req.get("limit", 2)
    fails = {}
    stats = {"programs": 0, "calls": 0, "module_execs": 0, "asts": 0, "distinct_outcomes": set()}
    sentinel = {"n": 0}

    budget = Budget(req, lambda: {"failures": fails, "stats": dict(stats, stopped_early="helper killed by the watchdog inside a product call that did not return"),
                                  "bound": "journal of an unfinished run (seed %d)" % req.get("seed", 0)})

    def fail(clause, d):
        lst = fails.setdefault(clause, [])
        if len(lst) < limit:
            lst.append(d)
            budget.failed()
    saved_print = builtins.print

    def spy(*a, **k):
        sentinel["n"] += 1
    only = req.get("programs")
    progs = []
    if only:
        for t in only:
            st, a = dsl_ref.parse_text(t)
            if st == "ok":
                progs.append((a, t))
    else:
        for t in FIXED_PROGRAMS + big_programs():
            st, a = dsl_ref.parse_text(t)
            if st == "ok":
                progs.append((a, t))
            else:
                fail("spec-self-check", {"text": t, "why": "fixed program rejected by the reference parser: %s" % (a,)})
        for i in range(count):
            exp = dsl_ref.gen_experiment(rnd)
            try:
                text = dsl_ref.render(exp, redundant=rnd.random() < 0.3)
            except ValueError:
                continue
            progs.append((exp, text))
    nfixed = 0 if only else len(FIXED_PROGRAMS) + len(big_programs())
    for pi, (exp, text) in enumerate(progs):
        budget.beat()
        st, back = dsl_ref.parse_text(text)
        if st != "ok" or not same_value(back, exp) and not only and pi >= nfixed:
            # the generator/renderer/reference-parser triple must round-trip; otherwise the case is not usable
            fail("spec-self-check", {"text": text, "why": "reference parser does not return the generated AST", "got": enc(back)})
            continue
        stats["programs"] += 1
        # ---- parser link: real AST == reference AST (values and types)
        try:
            real_ast = quiet(parse_source, text)
            ok = real_ast is not None
        except BaseException as e:   # noqa
            real_ast, ok = None, False
            fail("compile", {"text": text, "what": "parse_source raised %s: %s" % (type(e).__name__, str(e)[:200])})
        if ok:
            stats["asts"] += 1
            try:
                conv = real_to_spec(real_ast)
                if not same_ast(conv, exp):
                    fail("ast", {"text": text, "expected_ast": enc(exp), "real_ast": enc(conv)})
            except BaseException as e:   # noqa
                fail("ast", {"text": text, "what": "AST not convertible: %r" % (e,)})
        # ---- evaluator
        try:
            ev = quiet(ExperimentEvaluator, text)
        except BaseException as e:   # noqa
            fail("compile", {"text": text, "what": "ExperimentEvaluator raised %s: %s" % (type(e).__name__, str(e)[:200])})
            continue
        mods = {}
        for expose in (False, True):
            try:
                src = quiet(generate_code, text, expose)
                ns = {}
                exec(compile(src, "<generated>", "exec"), ns)   # noqa: S102 - the product's own generated code
                mods[expose] = ns[exp["id"]]
                stats["module_execs"] += 1
            except BaseException as e:   # noqa
                fail("module", {"text": text, "layout": "exposed" if expose else "nested", "what": "generate_code text not executable: %s: %s" % (type(e).__name__, str(e)[:200])})
        # a second evaluator built AFTER the module texts were generated: compilation must be history-independent
        try:
            ev2 = quiet(ExperimentEvaluator, text)
        except BaseException as e:   # noqa
            ev2 = None
            fail("rebuild", {"text": text, "what": "a second ExperimentEvaluator of the same text raised %s: %s" % (type(e).__name__, str(e)[:200])})
        envs = dsl_ref.gen_envs(rnd, exp, req.get("envs", 6))
        if (only or pi < nfixed) and "big_" not in text[:12]:
            envs += dsl_ref.cover_envs(rnd, exp)         # hand-written programs: every value near every literal, for every field
        spl, ids = dsl_ref.fields(exp)
        for f in spl:
            if f not in ids:
                for _ in range(3):
                    e2 = dict(envs[0])
                    e2[f] = rnd.choice(SPECIAL_VALUES)
                    envs.append(e2)
        if spl and not any(f in ids for f in spl):
            # values that are equal but print differently (and the empty key), consecutively on ONE evaluator
            for v in (1, 1.0, True, "1", 0, 0.0, False, "", "True"):
                e2 = dict(envs[0])
                for f in spl:
                    e2[f] = v
                envs.append(e2)
        for env in envs:
            budget.beat()
            stats["calls"] += 1
            exp_out = dsl_ref.evaluate(exp, env)
            builtins.print = spy
            try:
                got = call_outcome(ev, env)
            finally:
                builtins.print = saved_print
            case = {"text": text, "env": enc(env), "expected": enc(list(exp_out))}
            stats["distinct_outcomes"].add((exp_out[0], repr(exp_out[1])[:40]))
            if got[0] == "group":
                v = dec_value(got[1])
                case["observed"] = ["group", enc(v), type(v).__name__]
            else:
                case["observed"] = list(got)
            if exp_out[0] == "group":
                if got[0] != "group":
                    special = any(not isinstance(env[f], (int, float, str)) or isinstance(env[f], bool) or (isinstance(env[f], str) and not env[f].isascii()) for f in spl if f in env)
                    if got[1] in ("SyntaxError", "NameError", "AttributeError", "KeyError", "IndexError"):
                        fail("internal-error", case)
                    elif got[1] == "UnicodeEncodeError" or special:
                        fail("total", case)
                    elif got[1] == "ExperimentConditionalFailedError":
                        fail("routing", case)
                    else:
                        fail("internal-error", case)
                else:
                    sel = dsl_ref.route(exp["body"], env)
                    labels = [g[0] for g in sel]
                    if not any(same_value(v, x) for x in labels):
                        if any(v == x for x in labels):
                            fail("literal", case)
                        else:
                            fail("routing", case)
                    elif not same_value(v, exp_out[1]):
                        fail("bucket", case)
            elif exp_out[0] == "raise":
                if got[0] == "group":
                    fail("routing" if exp_out[1] == "ExperimentConditionalFailedError" else "error-class", case)
                elif got[1] != exp_out[1]:
                    if exp_out[1] == "ExperimentConditionalFailedError" or got[1] == "ExperimentConditionalFailedError":
                        fail("routing", case)
                        if got[1] != "ExperimentConditionalFailedError":
                            fail("internal-error", case)     # neither a group nor the dedicated error
                    elif got[1] in ("SyntaxError", "NameError", "AttributeError"):
                        fail("internal-error", case)
            if ev2 is not None:
                g2 = call_outcome(ev2, env)
                if (g2[0], g2[1] if g2[0] == "raise" else (dec_value(g2[1]), type(dec_value(g2[1])).__name__)) != \
                        (got[0], got[1] if got[0] == "raise" else (dec_value(got[1]), type(dec_value(got[1])).__name__)):
                    fail("rebuild", dict(case, what="a second evaluator built from the same text behaves differently", second=enc(list(g2)) if g2[0] == "raise" else ["group", enc(dec_value(g2[1]))]))
            # ---- C09: extra keyword arguments and argument order are irrelevant
            e3 = dict(reversed(list(env.items())))
            e3["zz_unrelated_extra"] = rnd.choice(SPECIAL_VALUES + [10 ** 5000, -(10 ** 4400), b"bytes", (1, "t"), [1, 2], {"k": 1}, 1e308 * 10, float("nan")])
            for f in list(env):
                twins = {f.replace("_", "-") if "_" in f.strip("_") else None: "dashed-twin-of-%s" % f,      # keys that are NOT fields, however similar they look
                         (f.upper() if f != f.upper() else f.lower()): "case-twin", f + "_": "suffixed-twin"}
                for tk, tv in twins.items():
                    if tk is not None and tk not in env:
                        e3[tk] = tv
            got3 = call_outcome(ev, e3)
            if (got3[0], got3[1] if got3[0] == "raise" else dec_value(got3[1])) != (got[0], got[1] if got[0] == "raise" else dec_value(got[1])):
                fail("irrelevance", dict(case, what="extra keyword argument / argument order changed the outcome", observed2=enc(list(got3)) if got3[0] == "raise" else ["group", enc(dec_value(got3[1]))]))
            # ---- C14: module text in both layouts behaves like the evaluator
            for expose, fn in mods.items():
                gm = call_outcome(fn, env)
                a = (got[0], got[1] if got[0] == "raise" else (dec_value(got[1]), type(dec_value(got[1])).__name__))
                b = (gm[0], gm[1] if gm[0] == "raise" else (dec_value(gm[1]), type(dec_value(gm[1])).__name__))
                if a != b:
                    fail("module", dict(case, layout="exposed" if expose else "nested", module_outcome=enc(list(b))))
        # ---- C13: nothing but the evaluation skeleton runs
        if sentinel["n"]:
            fail("inert", {"text": text, "what": "a builtin planted as sentinel (print) was invoked %d times while evaluating" % sentinel["n"]})
            sentinel["n"] = 0
    stats["distinct_outcomes"] = len(stats["distinct_outcomes"])
    return {"failures": fails, "stats": stats, "bound": "%d generated programs (seed %d) x ~%d inputs near every literal + special values" % (len(progs), req.get("seed", 0), req.get("envs", 6) + 1)}


def tokens_to_text(toks, rnd=None):
    out = []
    for t, v in toks:
        if t == "STRING_LITERAL":
            out.append(dsl_ref.q(v))
        elif t in ("NON_NEG_INTEGER", "NON_NEG_FLOAT"):
            out.append(dsl_ref.num(v))
        else:
            out.append(v)
    return " ".join(out)


@register("mutants_diff")
def mutants_diff(req):
    """C06 / C07 bounded: token-level mutants (delete, duplicate, swap, insert, illegal character, prefix/suffix junk,
    concatenation) of grammatical programs: the reference recogniser decides; real must raise iff it rejects"""
    from pyab_experiment.experiment_evaluator import ExperimentEvaluator
    rnd = random.Random(req.get("seed", 0))
    count = req.get("count", 40)
    per = req.get("per_program", 30)
    limit = req.get("limit", 2)
    fails = {}
    stats = {"mutants": 0, "rejected_by_ref": 0, "accepted_by_ref": 0}
    budget = Budget(req, lambda: {"failures": fails, "stats": dict(stats, stopped_early="helper killed by the watchdog"), "bound": "journal of an unfinished run"})

    def fail(clause, d):
        lst = fails.setdefault(clause, [])
        if len(lst) < limit:
            lst.append(d)
            budget.failed()
    junk = ["=", ".", ";", "@", "#", "$", "&", "|", "~", "`", "?", "%", "^", "[", "]", "\\", "=<", "=>", ".5", "1.", "def", "junk junk", "}", "{", "return", "weighted", '"unterminated',
            "\ufeff", "\u00ef\u00bb\u00bf", "\u00bb", "\u200b", "\u00a0@", "\x00", "\u2060", "\ufffe"]
    insertable = ["and", "or", "not", "(", ")", ",", "==", "1", '"s"', "x", "if", "else", "{", "}", "weighted", "return", "-", ":", "in"]
    for i in range(count):
        budget.beat()
        exp = dsl_ref.gen_experiment(rnd)
        try:
            text = dsl_ref.render(exp)
        except ValueError:
            continue
        st, toks = lex_ref.scan(text)
        if st != "ok":
            continue
        base = tokens_to_text(toks)
        variants = []
        for _ in range(per):
            k = rnd.randrange(8)
            t = list(toks)
            j = rnd.randrange(len(t))
            if k == 0:
                del t[j]
                v = tokens_to_text(t)
            elif k == 1:
                t.insert(j, t[j])
                v = tokens_to_text(t)
            elif k == 2 and len(t) > 1:
                j2 = rnd.randrange(len(t))
                t[j], t[j2] = t[j2], t[j]
                v = tokens_to_text(t)
            elif k == 3:
                parts = [tokens_to_text(t[:j]), rnd.choice(insertable), tokens_to_text(t[j:])]
                v = " ".join(parts)
            elif k == 4:
                parts = [tokens_to_text(t[:j]), rnd.choice(junk), tokens_to_text(t[j:])]
                v = " ".join(parts)
            elif k == 5:
                v = rnd.choice(junk + insertable) + rnd.choice([" ", ""]) + base       # also glued to the first token
            elif k == 6:
                v = base + " " + rnd.choice(junk + insertable)
            else:
                v = base + " " + base if rnd.random() < 0.5 else "def x { return } " + base
            variants.append(v)
        for v in variants:
            stats["mutants"] += 1
            st2, why = dsl_ref.parse_text(v)
            try:
                quiet(ExperimentEvaluator, v)
                raised = None
            except BaseException as e:   # noqa
                raised = type(e).__name__
            if st2 == "reject":
                stats["rejected_by_ref"] += 1
                if raised is None:
                    fail("accepts-invalid", {"text": v, "reference": why, "observed": "compiled without error"})
            else:
                stats["accepted_by_ref"] += 1
                if raised is not None:
                    fail("compile", {"text": v, "observed": "raised %s" % raised, "reference": "grammatical"})
    return {"failures": fails, "stats": stats, "bound": "%d programs x %d token-level mutants (seed %d)" % (count, per, req.get("seed", 0))}


@register("compile_outcomes")
def compile_outcomes(req):
    from pyab_experiment.experiment_evaluator import ExperimentEvaluator
    out = []
    for t in req["texts"]:
        try:
            quiet(ExperimentEvaluator, t)
            out.append({"text": t, "outcome": "compiled"})
        except BaseException as e:   # noqa
            out.append({"text": t, "outcome": "raised", "exc": type(e).__name__})
    return out


@register("model_probe")
def model_probe(req):
    """construct the REAL pydantic models with exemplar values; report what the field holds afterwards"""
    from pyab_experiment.data_structures import syntax_tree as st
    out = []
    for case in req["cases"]:
        cls, field, v = case["cls"], case["field"], case["value"]
        if v == "<Identifier x>":
            v = st.Identifier(name="x")
        elif isinstance(v, dict) and "__int__" in v:
            v = int(v["__int__"])
        base = {"TerminalPredicate": dict(left_term=1, logical_operator=st.LogicalOperatorEnum.EQ, right_term=1),
                "ExperimentGroup": dict(group_definition="g", group_weight=1), "Identifier": dict(name="n")}[cls]
        kw = dict(base)
        kw[field] = v
        try:
            got = getattr(getattr(st, cls)(**kw), field)
            same_type = type(got) is type(v)
            try:
                same_val = bool(got == v) if same_type else False
            except Exception:   # noqa
                same_val = False
            if isinstance(v, list) and isinstance(got, (tuple, list)):
                items_same = len(got) == len(v) and all(type(a) is type(b) and a == b for a, b in zip(got, v))
                out.append({"outcome": "container", "type": type(got).__name__, "items_same": items_same})
            else:
                out.append({"outcome": "same" if (same_type and same_val) else "coerced", "type": type(got).__name__, "repr": repr(got)[:60]})
        except BaseException as e:   # noqa
            out.append({"outcome": "error", "exc": type(e).__name__})
    return out


def _norm_weights(tree):
    """weights are numbers: 1 and 1.0 are the same weight (the AST comparison is by numeric value there)"""
    for n in pyast.walk(tree):
        if isinstance(n, pyast.Call):
            for k in n.keywords:
                if k.arg in ("weights", "cum_weights") and isinstance(k.value, pyast.List):
                    for el in k.value.elts:
                        if isinstance(el, pyast.Constant) and isinstance(el.value, (int, float)) and not isinstance(el.value, bool):
                            el.value = float(el.value)


def _canon(src, sort_params=True):
    tree = pyast.parse(src)
    if sort_params:
        for n in pyast.walk(tree):
            if isinstance(n, pyast.FunctionDef):
                n.args.args.sort(key=lambda a: a.arg)
            if isinstance(n, pyast.Call):
                n.keywords.sort(key=lambda k: k.arg or "")
    _norm_weights(tree)
    return pyast.dump(tree)


@register("tv_diff")
def tv_diff(req):
    """bounded TRANSLATION VALIDATION of the generator: for generated (or given) programs, the Python AST of the real
    PythonCodeGen output (both layouts) must equal the AST of D(spec AST), D written from the property statements"""
    from pyab_experiment.codegen.python.python_generator import PythonCodeGen
    from pyab_experiment.utils.wraper_functions import parse_source
    from spec import d_ref
    rnd = random.Random(req.get("seed", 0))
    progs = []
    for t in req.get("programs") or []:
        st, a = dsl_ref.parse_text(t)
        if st == "ok":
            progs.append((a, t))
    if not req.get("programs"):
        for t in FIXED_PROGRAMS + big_programs():          # the hand-written corner cases are validated in every run
            st, a = dsl_ref.parse_text(t)
            if st == "ok":
                progs.append((a, t))
        for i in range(req.get("count", 150)):
            exp = dsl_ref.gen_experiment(rnd)
            try:
                progs.append((exp, dsl_ref.render(exp, redundant=rnd.random() < 0.3)))
            except ValueError:
                continue
    fails, n = [], 0
    budget = Budget(req, lambda: {"evaluations": n, "failures": fails, "bound": "journal of an unfinished run"})
    for exp, text in progs:
        if fails:
            budget.failed()
        budget.beat()
        for expose in (False, True):
            n += 1
            try:
                real = quiet(lambda: PythonCodeGen(parse_source(text), expose_experiment_variant_function=expose).generate())
                a = _canon(real)
            except BaseException as e:   # noqa
                a = "generator failed: %s: %s" % (type(e).__name__, str(e)[:200])
                real = ""
            b = _canon(d_ref.full_module(exp, expose))
            if real and a == b:
                # assumed contract of black.format_str: AST-preserving (checked on every text this run generates)
                try:
                    from black import FileMode, format_str
                    if _canon(quiet(format_str, real, mode=FileMode())) != a and len(fails) < req.get("limit", 2):
                        fails.append({"text": text, "layout": "exposed" if expose else "nested", "what": "black.format_str changed the AST of the generated module"})
                except Exception as e:   # noqa
                    if len(fails) < req.get("limit", 2):
                        fails.append({"text": text, "what": "black.format_str failed on the generated module: %s" % type(e).__name__})
            if a != b and len(fails) < req.get("limit", 2):
                i = next((k for k, (x, y) in enumerate(zip(a, b)) if x != y), min(len(a), len(b)))
                fails.append({"text": text, "layout": "exposed" if expose else "nested", "first_difference": {"real": a[max(0, i - 120):i + 160], "expected": b[max(0, i - 120):i + 160]}})
    return {"evaluations": n, "failures": fails, "bound": "%d programs x 2 layouts" % len(progs)}


@register("parse_oracle")
def parse_oracle(req):
    """CPython's own parser as the decision procedure for template obligations: parse `real` and `expected` texts of
    each case and compare the ASTs (ast.dump, no positions)"""
    out = []
    for c in req["cases"]:
        r = {}
        for side in ("real", "expected"):
            try:
                mode = c.get("mode", "exec")
                tree = pyast.parse(c[side], mode="exec" if mode.startswith("exec") else mode)
                if mode == "exec-sortparams":
                    # parameters are only ever passed by keyword: their order is immaterial
                    for n in pyast.walk(tree):
                        if isinstance(n, pyast.FunctionDef):
                            n.args.args.sort(key=lambda a: a.arg)
                        if isinstance(n, pyast.Call):
                            n.keywords.sort(key=lambda k: k.arg or "")
                _norm_weights(tree)
                r[side] = pyast.dump(tree)
            except SyntaxError as e:
                r[side] = "SyntaxError: %s (line %s)" % (e.msg, e.lineno)
            except (ValueError, RecursionError, MemoryError) as e:
                r[side] = "%s: %s" % (type(e).__name__, e)
        r["same"] = r["real"] == r["expected"] and not r["real"].startswith(("SyntaxError", "ValueError"))
        out.append(r)
    return out


@register("depth_probe")
def depth_probe(req):
    """C14: `if` blocks nested n deep: indentation levels of the generator's text per layout, and whether the evaluator and the
    two module texts build and answer alike"""
    from pyab_experiment.experiment_evaluator import ExperimentEvaluator
    from pyab_experiment.codegen.python.python_generator import PythonCodeGen
    from pyab_experiment.utils.wraper_functions import generate_code, parse_source
    out = []
    for n in req["depths"]:
        text = "def deep {\n" + "".join("if x > %d {\n" % i for i in range(n)) + 'return "a" weighted 1\n' + "}\n" * n + "}\n"
        row = {"depth": n, "text": text if n <= 4 else "def deep { " + "if x > <i> { " * 2 + "... (%d nested if blocks) ... return \"a\" weighted 1 }...}" % n}
        env = {"x": 10 ** 6}
        try:
            a = call_outcome(quiet(ExperimentEvaluator, text), env)
            row["evaluator"] = a[1] if a[0] == "raise" else dec_value(a[1])
        except BaseException as e:   # noqa
            row["evaluator"] = "compile:%s" % type(e).__name__
        for expose in (False, True):
            k = "exposed" if expose else "nested"
            try:
                raw = quiet(lambda: PythonCodeGen(parse_source(text), expose_experiment_variant_function=expose).generate())
                # indentation LEVELS as Python's tokenizer counts them (whatever characters the generator indents with)
                import tokenize
                depth = deepest = 0
                for tok in tokenize.generate_tokens(io.StringIO(raw).readline):
                    if tok.type == tokenize.INDENT:
                        depth += 1
                        deepest = max(deepest, depth)
                    elif tok.type == tokenize.DEDENT:
                        depth -= 1
                row["indent_levels_" + k] = deepest
            except BaseException as e:   # noqa
                row["indent_levels_" + k] = None
            try:
                ns = {}
                exec(compile(quiet(generate_code, text, expose), "<generated>", "exec"), ns)   # noqa: S102
                b = call_outcome(ns["deep"], env)
                row["module_" + k] = b[1] if b[0] == "raise" else dec_value(b[1])
            except BaseException as e:   # noqa
                row["module_" + k] = "compile:%s" % type(e).__name__
        row["same"] = row["evaluator"] == row["module_nested"] == row["module_exposed"]
        out.append(row)
    return out


@register("module_vs_evaluator")
def module_vs_evaluator(req):
    """C14 replay: the same program under different experiment ids: exec of generate_code text vs ExperimentEvaluator"""
    from pyab_experiment.experiment_evaluator import ExperimentEvaluator
    from pyab_experiment.utils.wraper_functions import generate_code
    out = []
    for name in req["ids"]:
        text = 'def %s { splitters: uid return "A" weighted 1, "B" weighted 1 }' % name
        row = {"id": name, "text": text}
        try:
            ev = quiet(ExperimentEvaluator, text)
            a = call_outcome(ev, {"uid": "u1"})
            row["evaluator"] = a[0] if a[0] == "raise" else dec_value(a[1])
        except BaseException as e:   # noqa
            row["evaluator"] = "compile:%s" % type(e).__name__
        for expose in (False, True):
            try:
                ns = {}
                exec(compile(quiet(generate_code, text, expose), "<generated>", "exec"), ns)   # noqa: S102
                b = call_outcome(ns[name], {"uid": "u1"})
                row["module_%s" % ("exposed" if expose else "nested")] = b[1] if b[0] == "raise" else dec_value(b[1])
            except BaseException as e:   # noqa
                row["module_%s" % ("exposed" if expose else "nested")] = "compile:%s" % type(e).__name__
        row["same"] = row.get("evaluator") == row.get("module_nested") == row.get("module_exposed")
        out.append(row)
    return out


@register("parse_probe")
def parse_probe(req):
    """replay search for a refuted parse_source clause: real parse_source vs the reference parser on texts built to expose a
    transformation of the text before lexing (prefix / suffix junk, characters str methods treat specially, very long
    definitions followed by junk)"""
    from pyab_experiment.utils.wraper_functions import parse_source
    base = [t for t in FIXED_PROGRAMS + big_programs()]
    long_def = "def long { splitters: uid return " + ", ".join('"g%d" weighted 1' % i for i in range(1400)) + " }"
    texts = []
    for t in base[:12] + [long_def]:
        texts.append(t)
        for pre in ("﻿", "ï»¿", "»", "​", "\x00"):
            texts.append(pre + t)
        for suf in (" }", " junk", " @", " def x { return 1 weighted 1 }", "﻿", " \udc80"):
            texts.append(t + suf)
    for t in base:
        if '"' in t:
            texts.append(t.replace('" ', '"\t', 1))
    specials = ["a\tb", "a\x0cb", "a b", "a\x85b", "a\rb", "a\x0bb", "a\x1cb", "a  b", " a ", "a\\", "café", "é", "Å", "{x}", "%s", "$x", "x//y", "x/*y*/z"]
    for sp in specials:
        texts.append('def s { salt: "%s" splitters: uid if x == "%s" { return "%s" weighted 1 } else { return "n" weighted 1 } }' % (sp, sp, sp))
    fails, n = [], 0
    for text in texts:
        n += 1
        st, ref = dsl_ref.parse_text(text)
        try:
            real = quiet(parse_source, text)
            rst = "ok" if real is not None else "none"
        except BaseException as e:   # noqa
            real, rst = None, "raise:" + type(e).__name__
        if st == "ok":
            good = rst == "ok" and same_ast(real_to_spec(real), ref)
        else:
            good = rst != "ok"
        if not good and len(fails) < req.get("limit", 3):
            fails.append({"text": text if len(text) < 400 else text[:200] + " ... " + text[-150:], "length": len(text), "reference": st, "real": rst,
                          "what": "parse_source disagrees with the reference parser (acceptance or syntax tree)"})
    return {"evaluations": n, "failures": fails}
