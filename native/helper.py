"""Native helper: runs under the PRODUCT's interpreter (/venv/bin/python) against /repo's current working tree.
Used for: dumping the live lexer / parser tables, the CPython parse oracle, replays of counterexamples, and the
bounded cross-checks of assumed contracts.  Protocol: a JSON list of requests on stdin -> a JSON list of answers.
"""
import json
import os
import sys
import traceback

VERIF = os.path.dirname(os.path.dirname(os.path.abspath(__file__)))
REPO = os.environ.get("VERIF_REPO", "/repo")
sys.path.insert(0, os.path.join(REPO, "src"))
sys.path.insert(0, VERIF)
sys.dont_write_bytecode = True


def dec(v):
    from fractions import Fraction
    if isinstance(v, dict):
        if "__frac__" in v:
            n, d = v["__frac__"]
            return float(Fraction(int(n), int(d)))
        if "__fraction__" in v:
            n, d = v["__fraction__"]
            return Fraction(int(n), int(d))
        if "__tuple__" in v:
            return tuple(dec(x) for x in v["__tuple__"])
        if "__int__" in v:
            return int(v["__int__"])
        if "__float__" in v:
            return float(v["__float__"])
        if "__none__" in v:
            return None
        return {k: dec(x) for k, x in v.items()}
    if isinstance(v, list):
        return [dec(x) for x in v]
    return v


def enc(v):
    if isinstance(v, bool) or v is None or isinstance(v, str):
        return v
    if isinstance(v, int):
        return v if abs(v) < 2 ** 53 else {"__int__": str(v)}
    if isinstance(v, float):
        return {"__float__": repr(v)}
    if isinstance(v, tuple):
        return {"__tuple__": [enc(x) for x in v]}
    if isinstance(v, list):
        return [enc(x) for x in v]
    if isinstance(v, dict):
        return {str(k): enc(x) for k, x in v.items()}
    return {"__repr__": repr(v), "__type__": type(v).__name__}


def resolve(target):
    import importlib
    mod, qual = target.split(":")
    obj = importlib.import_module(mod)
    for part in qual.split("."):
        obj = getattr(obj, part)
    return obj


def outcome(fn, *a, **k):
    try:
        v = fn(*a, **k)
        return {"outcome": "return", "value": enc(v), "type": type(v).__name__}
    except BaseException as e:   # noqa
        return {"outcome": "raise", "exc": type(e).__name__, "msg": str(e)[:300]}


def do_call(req):
    """call a real function; optionally with binning.deterministic_proba patched to a given position (MD5 cannot
    be inverted, so hash-position counterexamples are replayed by substituting the position in THIS process only)"""
    fn = resolve(req["target"])
    args = dec(req.get("args", []))
    kwargs = dec(req.get("kwargs", {}))
    snap = json.dumps(enc([args, kwargs]), sort_keys=True)
    if req.get("patch_proba") is not None:
        import pyab_experiment.binning.binning as b
        u = dec(req["patch_proba"])
        saved = b.deterministic_proba
        b.deterministic_proba = lambda s: float(u)
        try:
            res = outcome(fn, *args, **kwargs)
        finally:
            b.deterministic_proba = saved
        res["patched"] = "binning.deterministic_proba -> %r (harness process only)" % float(u)
    else:
        res = outcome(fn, *args, **kwargs)
    res["args_unmodified"] = (json.dumps(enc([args, kwargs]), sort_keys=True) == snap)
    return res


HANDLERS = {"call": do_call}


def register(name):
    def deco(f):
        HANDLERS[name] = f
        return f
    return deco


def main():
    # optional handler modules (each registers more commands)
    for m in ("native.h_lex", "native.h_gen", "native.h_models", "native.h_bounded"):
        try:
            __import__(m)
        except ModuleNotFoundError as e:
            if m.split(".")[-1] not in str(e):
                raise
    reqs = json.load(sys.stdin)
    out = []
    for r in reqs:
        try:
            out.append({"ok": True, "result": HANDLERS[r["cmd"]](r)})
        except BaseException:   # noqa
            out.append({"ok": False, "error": traceback.format_exc()})
    json.dump(out, sys.stdout)


if __name__ == "__main__":
    from native import helper as _h     # one module instance, so that handler modules register into the same table
    _h.main()
