"""Bounded stand-ins executed on the real code (labelled `bounded` in evidence, never counted as proved)."""
import itertools
import math
from fractions import Fraction

from native.helper import register, outcome, enc
from spec import scheme

TWO32 = 2 ** 32


def _with_pos(u, fn, *a, **k):
    import pyab_experiment.binning.binning as b
    saved = b.deterministic_proba
    b.deterministic_proba = lambda s: float(u)
    try:
        return outcome(fn, *a, **k)
    finally:
        b.deterministic_proba = saved


def _boundary_us(cum):
    """grid points adjacent to every boundary, plus 0 and the last grid point"""
    tot = Fraction(cum[-1]) if cum and cum[-1] > 0 else Fraction(1)
    ks = {0, 1, TWO32 - 1, TWO32 // 2}
    for c in cum:
        x = Fraction(c) / tot * TWO32
        f = x.numerator // x.denominator
        for k in (f - 1, f, f + 1):
            if 0 <= k < TWO32:
                ks.add(k)
    return sorted(ks)


@register("choice_diff")
def choice_diff(req):
    """exhaustive small weight vectors x boundary-adjacent grid positions: real deterministic_choice vs spec.
    bound: n <= max_n, integer weights 0..max_w plus the dyadic/decimal pool; all three argument forms"""
    import pyab_experiment.binning.binning as b
    max_n, max_w, limit = req.get("max_n", 4), req.get("max_w", 3), req.get("limit", 5)
    pool = list(range(max_w + 1))
    extra = req.get("extra_weights", [0.5, 0.25, 1.5, 1e-9, 1e9, 0.1, 3.4])
    fails, evals, distinct = [], 0, set()

    def check(ws, u, form):
        nonlocal evals
        n = len(ws)
        pop = ["g%d" % i for i in range(n)]
        cum = list(itertools.accumulate(ws))
        if form == "weights":
            res = _with_pos(u, b.deterministic_choice, "unit", pop, list(ws))
            exp = scheme.spec_choice(n, list(ws), None, u)
        elif form == "cum_weights":
            res = _with_pos(u, b.deterministic_choice, "unit", pop, cum_weights=list(cum))
            exp = scheme.spec_choice(n, None, list(cum), u)
        else:
            res = _with_pos(u, b.deterministic_choice, "unit", pop)
            exp = scheme.spec_choice(n, None, None, u)
        evals += 1
        distinct.add((tuple(ws), form, u))
        if exp["outcome"] == "raise":
            ok = res["outcome"] == "raise" and res["exc"] == exp["exc"]
        else:
            ok = res["outcome"] == "return" and res["value"] == pop[exp["index"]]
            exact = all(float(w).is_integer() or Fraction(w).denominator in (2, 4) for w in ws) and sum(ws) < 2 ** 20
            if not ok and not exact and res["outcome"] == "return":
                # non-dyadic weights: allow the documented one-grid-point tolerance around a boundary
                near = set()
                for du in (-1, 1):
                    k2 = u * TWO32 + du
                    if 0 <= k2 < TWO32:
                        near.add(pop[scheme.spec_choice(n, list(ws), None, Fraction(k2, TWO32))["index"]])
                ok = res["value"] in near
        if not ok and len(fails) < limit:
            fails.append({"weights": enc(list(ws)), "form": form, "u": "%d/2^32" % (u * TWO32), "expected": exp, "observed": res})

    for n in range(1, max_n + 1):
        for ws in itertools.product(pool, repeat=n):
            cum = list(itertools.accumulate(ws))
            for k in _boundary_us(cum):
                u = Fraction(k, TWO32)
                for form in ("weights", "cum_weights"):
                    check(ws, u, form)
                if len(set(ws)) == 1:
                    check(ws, u, "none")
    for n in (2, 3):
        for ws in itertools.product(extra, repeat=n):
            cum = list(itertools.accumulate(ws))
            for k in _boundary_us(cum):
                check(ws, Fraction(k, TWO32), "weights")
    # totals in the subnormal range (where u*total may round up to total: the rounding fact A-real hides needs a NORMAL total)
    for ws in ([5e-324], [5e-324, 5e-324], [1e-320, 2e-320, 5e-324], [0.0, 5e-324]):
        for k in (0, 1, TWO32 // 2, TWO32 - 2, TWO32 - 1):
            u = Fraction(k, TWO32)
            pop = ["g%d" % i for i in range(len(ws))]
            for form, res in (("weights", _with_pos(u, b.deterministic_choice, "unit", pop, list(ws))),
                              ("cum_weights", _with_pos(u, b.deterministic_choice, "unit", pop, cum_weights=list(itertools.accumulate(ws))))):
                evals += 1
                ok = res["outcome"] == "return" and res["value"] in pop and ws[pop.index(res["value"])] > 0
                if not ok and len(fails) < limit:
                    fails.append({"weights": enc(list(ws)), "form": form, "u": "%d/2^32" % k, "expected": "an element of the population with a positive weight (subnormal total)", "observed": res})
    # unweighted path for larger n, error branches
    for n in (1, 2, 3, 7, 64):
        for k in _boundary_us([Fraction(i + 1) for i in range(n)]):
            check([1] * n, Fraction(k, TWO32), "none")
            check([1] * n, Fraction(k, TWO32), "weights")
    pop = ["a", "b"]
    for args, kw, exc in (((pop, [1]), {}, "ValueError"), ((pop, [1, 2, 3]), {}, "ValueError"), ((pop, [0, 0]), {}, "ValueError"),
                          ((pop, [1, float("inf")]), {}, "ValueError"), ((pop, [1, 2]), {"cum_weights": [1, 3]}, "TypeError"),
                          ((pop,), {"cum_weights": [1]}, "ValueError"), ((pop,), {"cum_weights": [0, 0]}, "ValueError"),
                          ((pop, [1, float("nan")]), {}, "ValueError"), ((pop, [float("nan"), 1]), {}, "ValueError"), ((pop, [float("inf"), float("-inf")]), {}, "ValueError"),
                          ((pop,), {"cum_weights": [1, float("nan")]}, "ValueError"), ((pop,), {"cum_weights": [1, float("inf")]}, "ValueError"),
                          ((pop, [-1, -1]), {}, "ValueError"), ((pop, [1, -2]), {}, "ValueError"), ((pop, []), {}, "ValueError"), ((pop,), {"cum_weights": []}, "ValueError")):
        res = _with_pos(Fraction(1, 4), b.deterministic_choice, "unit", *args, **kw)
        evals += 1
        distinct.add((repr(args), repr(kw)))
        if not (res["outcome"] == "raise" and res["exc"] == exc) and len(fails) < limit:
            fails.append({"args": enc(args), "kwargs": enc(kw), "expected": {"outcome": "raise", "exc": exc}, "observed": res})
    # integer weights beyond 2^53: running totals are exact ints, only the TOTAL becomes a float
    for k in (2 ** 23, 2 ** 23 + 1, 2 ** 31, 2 ** 32 - 5, 3 * 2 ** 29 + 7):
        ws = [k * 2 ** 30, 1, 2 ** 62 - k * 2 ** 30 - 1]
        pop = ["g0", "g1", "g2"]
        for kk in (k - 1, k, k + 1):
            u = Fraction(kk, TWO32)
            exp = scheme.spec_choice(3, list(ws), None, u)
            for form, res in (("weights(big ints)", _with_pos(u, b.deterministic_choice, "unit", pop, list(ws))),
                              ("cum_weights(big ints)", _with_pos(u, b.deterministic_choice, "unit", pop, cum_weights=list(itertools.accumulate(ws))))):
                evals += 1
                if not (res["outcome"] == "return" and exp["outcome"] == "return" and res["value"] == pop[exp["index"]]) and len(fails) < limit:
                    fails.append({"weights": [str(w) for w in ws], "form": form, "u": "%d/2^32" % kk, "expected": exp, "observed": res})
    # running totals of mixed int / float type (a total that happens to be an int after fractional partial sums)
    for cumm in ([0.25, 0.5, 0.75, 1], [0.5, 1], [1.5, 3], [0.5, 1.5, 2], [1, 1.5, 2.5], [2, 2.5]):
        n = len(cumm)
        pop = ["g%d" % i for i in range(n)]
        for k in _boundary_us([Fraction(c) for c in cumm]):
            u = Fraction(k, TWO32)
            res = _with_pos(u, b.deterministic_choice, "unit", pop, cum_weights=list(cumm))
            exp = scheme.spec_choice(n, None, [Fraction(c) for c in cumm], u)
            evals += 1
            if not (res["outcome"] == "return" and exp["outcome"] == "return" and res["value"] == pop[exp["index"]]) and len(fails) < limit:
                fails.append({"cum_weights": enc(list(cumm)), "form": "cum_weights(mixed int/float)", "u": "%d/2^32" % k, "expected": exp, "observed": res})
    # arguments are never modified, whatever their container type and however close their total is to a 'round' number
    for ws0 in ([0.1] * 10, [0.7, 0.2, 0.1], [0.1] * 3, [1, 2, 3], [0.5, 0.5], [1e-17, 1.0], [3.3333333333333335, 3.3333333333333335, 3.333333333333333]):
        cum0 = list(itertools.accumulate(ws0))
        popn = ["g%d" % i for i in range(len(ws0))]
        for mk in (list, tuple):
            for form in ("weights", "cum_weights"):
                arg = mk(ws0 if form == "weights" else cum0)
                before = mk(arg)
                p_arg = mk(popn)
                res = _with_pos(Fraction(TWO32 - 1, TWO32), b.deterministic_choice, "unit", p_arg, arg) if form == "weights" else \
                    _with_pos(Fraction(TWO32 - 1, TWO32), b.deterministic_choice, "unit", p_arg, cum_weights=arg)
                evals += 1
                same = arg == before and all(type(x) is type(y) and repr(x) == repr(y) for x, y in zip(arg, before)) and p_arg == mk(popn)
                if not (res["outcome"] == "return" and res["value"] in popn and same) and len(fails) < limit:
                    fails.append({"form": form, "container": mk.__name__, "argument_before": enc(list(before)), "argument_after": enc(list(arg)), "u": "(2^32-1)/2^32",
                                  "expected": "a member of the population; arguments left exactly as given", "observed": res})
    # the function is pure: the SAME list objects, edited in place between calls, are read afresh on every call
    pop3 = ["g0", "g1", "g2"]
    ws = [1, 0, 0]
    cw = [1, 1, 1]
    for step, (edit, edit_c) in enumerate([(lambda: None, lambda: None), (lambda: ws.__setitem__(slice(None), [0, 1, 1]), lambda: cw.__setitem__(slice(None), [0, 1, 2])),
                                           (lambda: ws.__setitem__(slice(None), [2, 0, 2]), lambda: cw.__setitem__(slice(None), [2, 2, 4]))]):
        edit()
        edit_c()
        for k in _boundary_us(list(itertools.accumulate(ws))):
            u = Fraction(k, TWO32)
            for form, res in (("weights(same list object, edited in place)", _with_pos(u, b.deterministic_choice, "unit", pop3, ws)),
                              ("cum_weights(same list object, edited in place)", _with_pos(u, b.deterministic_choice, "unit", pop3, cum_weights=cw))):
                evals += 1
                exp = scheme.spec_choice(3, list(ws), None, u)
                if not (res["outcome"] == "return" and res["value"] == pop3[exp["index"]]) and len(fails) < limit:
                    fails.append({"history": "call, edit the list in place, call again (step %d)" % step, "weights_now": list(ws), "form": form, "u": "%d/2^32" % k, "expected": exp, "observed": res})
    ws.append(1)
    res = _with_pos(Fraction(1, 4), b.deterministic_choice, "unit", pop3, ws)
    evals += 1
    if not (res["outcome"] == "raise" and res["exc"] == "ValueError") and len(fails) < limit:
        fails.append({"history": "a 4th weight appended in place to a list used before", "expected": {"outcome": "raise", "exc": "ValueError"}, "observed": res})
    # population elements are handed back as they are, whatever they are: never formatted, compared, hashed or used as an index
    class Inert:
        __slots__ = ()
        __hash__ = None

        def _no(self, *a, **k):
            raise AssertionError("the population element was inspected")
        __eq__ = __ne__ = __str__ = __repr__ = __format__ = __bool__ = __len__ = __iter__ = __index__ = __int__ = __float__ = __getitem__ = __mod__ = __rmod__ = _no
    for popx in ([(), ("variant", 2), ("a",)], [None, {"k": 1}, [1, 2]], [("%s", "%d"), "100%", "{0}"], [Inert(), Inert(), Inert()], [2, 0, 1], [True, False, True], [0, 0, 0], [1, 0, 2],
                 [b"x", 1.5, float("nan")]):
        n = len(popx)
        for wsx in ([1, 1, 1], [0, 1, 0], [1, 2, 3]):
            for k in _boundary_us(list(itertools.accumulate(wsx))):
                u = Fraction(k, TWO32)
                exp = scheme.spec_choice(n, list(wsx), None, u)
                forms = [("weights", (popx, list(wsx)), {}), ("cum_weights", (popx,), {"cum_weights": list(itertools.accumulate(wsx))})]
                if len(set(wsx)) == 1:
                    forms.append(("none", (popx,), {}))
                for form, a, kw in forms:
                    saved = b.deterministic_proba
                    b.deterministic_proba = lambda s_, u=u: float(u)
                    evals += 1
                    try:
                        got = b.deterministic_choice("unit", *a, **kw)
                        okx = got is popx[exp["index"]]
                        obs = "returned the element at index %s" % next((i for i, x in enumerate(popx) if x is got), "?")
                    except BaseException as e:      # noqa
                        okx, obs = False, "raised %s: %s" % (type(e).__name__, str(e)[:120])
                    finally:
                        b.deterministic_proba = saved
                    if not okx and len(fails) < limit:
                        fails.append({"population": [type(x).__name__ + ":" + (object.__repr__(x) if isinstance(x, Inert) else repr(x)) for x in popx], "weights": wsx, "form": form, "u": "%d/2^32" % k,
                                      "expected": "the very element at index %d" % exp["index"], "observed": obs})
    return {"evaluations": evals, "distinct": len(distinct), "failures": fails,
            "bound": "n<=%d, integer weights 0..%d (all vectors), decimal pool %r for n in 2..3, grid points adjacent to every boundary + {0,1,2^31,2^32-1}" % (max_n, max_w, extra)}


@register("proba_known_answers")
def proba_known_answers(req):
    """assumption cross-check: hashlib.md5 == independent MD5 on RFC vectors + pseudo-random inputs; and the real
    deterministic_proba == spec.scheme.pos on them (bounded)"""
    import hashlib
    import random
    from spec.md5_ref import md5_hex, KNOWN_ANSWERS
    import pyab_experiment.binning.binning as b
    rnd = random.Random(req.get("seed", 0))
    fails, n = [], 0
    for data, hx in KNOWN_ANSWERS.items():
        n += 1
        if md5_hex(data) != hx or hashlib.md5(data).hexdigest() != hx:
            fails.append({"data": data.decode(), "what": "md5 known answer"})
    keys = ["", "a", "abc", "user_1", "salt42", "1", "1.5", "None", "True", "x" * 1000, "\x00", "'\"\\"]
    keys += ["".join(chr(rnd.choice([rnd.randrange(32, 127), rnd.randrange(0x80, 0x800), rnd.randrange(0x4e00, 0x9fff), rnd.randrange(0x1f300, 0x1f600)]))
                     for _ in range(rnd.randrange(1, 40))) for _ in range(req.get("count", 300))]
    for k in keys:
        n += 1
        data = k.encode("utf-8")
        if md5_hex(data) != hashlib.md5(data).hexdigest():
            fails.append({"key": k, "what": "hashlib.md5 != md5_ref"})
            continue
        res = outcome(b.deterministic_proba, k)
        exp = scheme.pos(k)
        if not (res["outcome"] == "return" and float(res["value"]["__float__"]) == exp):
            if len(fails) < 5:
                fails.append({"key": k, "what": "deterministic_proba != published scheme", "expected": repr(exp), "observed": res})
    return {"evaluations": n, "failures": fails}


@register("ci_grid")
def ci_grid(req):
    """bounded stand-in for C18: grid of (n, p, confidence, method) on the real helpers vs the textbook formulas"""
    import pyab_experiment.utils.stats as st
    from spec import stats_ref as ref
    ns = req.get("ns", [1, 2, 3, 10, 100, 1000, 10 ** 6, 10 ** 9])
    ps = req.get("ps", [0, 0.001, 0.1, 0.25, 0.5, 0.75, 0.9, 0.999, 1])
    confs = req.get("confs", [0.001, 0.02, 0.1, 0.5, 0.8, 0.9, 0.95, 0.99, 0.999, 0.999999, 1 - 2 ** -30, 1 - 2 ** -45])
    extra = req.get("points", [])
    fails, evals = [], 0
    limit = req.get("limit", 5)

    def fail(d):
        if len(fails) < limit:
            fails.append(d)
    for name in ["agresti-coull", "wald", "Agresti-Coull", "WALD"]:
        for conf in confs:
            zr = outcome(st.probit, (1 - conf) / 2)
            if zr["outcome"] != "return":
                fail({"what": "probit raised", "alpha": (1 - conf) / 2, "observed": zr})
                continue
            z = float(zr["value"]["__float__"])
            prev = None
            for n in ns:
                for p in ps:
                    evals += 1
                    res = outcome(st.confidence_interval, n, p, conf, name)
                    exp = (ref.agresti_coull if name.lower() == "agresti-coull" else ref.wald)(n, p, z)
                    if res["outcome"] != "return":
                        fail({"n": n, "p": p, "confidence": conf, "method": name, "expected": list(exp), "observed": res})
                        continue
                    lo, hi = [float(x["__float__"]) for x in res["value"]["__tuple__"]]
                    if not (lo <= hi and ref.close(lo, exp[0]) and ref.close(hi, exp[1])):
                        fail({"n": n, "p": p, "confidence": conf, "method": name, "expected": list(exp), "observed": [lo, hi]})
    for name in ["", "a", "agresti", "coull", "wal", "w", "wilson", "agresti-coull ", "wald\n", "agresti_coull", "exact"]:
        evals += 1
        res = outcome(st.confidence_interval, 10, 0.5, 0.95, name)
        if not (res["outcome"] == "raise" and res["exc"] == "NotImplementedError"):
            fail({"method": name, "expected": {"outcome": "raise", "exc": "NotImplementedError"}, "observed": res})
    # z-score: closed form, symmetry, monotone
    alphas = [i / 2000 for i in range(1, 2000)] + [1e-12, 1e-9, 1e-6, 1 - 1e-6, 1 - 1e-9, 0.4995, 0.5005, 0.49, 0.51,
                                                     1e-15, 1e-30, 1e-70, 1e-100, 1e-300, 5e-324, 1 - 2 ** -40, 1 - 2 ** -52]
    zs = {}
    for a in alphas:
        evals += 1
        r = outcome(st.probit, a)
        if r["outcome"] != "return":
            fail({"alpha": a, "observed": r, "what": "probit raised"})
            continue
        v = float(r["value"]["__float__"])
        zs[a] = v
        if not ref.close(v, ref.z_closed_form(a), rel=1e-12):
            fail({"alpha": a, "expected": ref.z_closed_form(a), "observed": v, "what": "z != sqrt(pi/8)*|logit(alpha)|"})
        # symmetry on an exactly complementary float pair (b, 1-b): 1-b is exact for b in [0.5, 1] (Sterbenz), so the
        # comparison is not polluted by the rounding of 1-a for tiny a
        b = 1 - a if a < 0.5 else a
        if 0 < b < 1:
            evals += 1
            r1, r2 = outcome(st.probit, 1 - b), outcome(st.probit, b)
            if r1["outcome"] == "return" and r2["outcome"] == "return" and not ref.close(float(r1["value"]["__float__"]), float(r2["value"]["__float__"]), rel=1e-9):
                fail({"alpha": 1 - b, "what": "probit not symmetric", "observed": [r1, r2]})
            elif r1["outcome"] != r2["outcome"]:
                fail({"alpha": 1 - b, "what": "probit not symmetric (one side raises)", "observed": [r1, r2]})
    for pt in extra:
        evals += 1
        res = outcome(st.confidence_interval, pt["n"], pt["p"], pt["confidence"], pt["method"])
        pt2 = dict(pt)
        pt2["observed"] = res
        fails_before = len(fails)
        if pt["method"].lower() not in ("agresti-coull", "wald"):
            if not (res["outcome"] == "raise" and res["exc"] == "NotImplementedError"):
                pt2["expected"] = {"outcome": "raise", "exc": "NotImplementedError"}
                fail(pt2)
        else:
            zr = outcome(st.probit, (1 - pt["confidence"]) / 2)
            z = float(zr["value"]["__float__"]) if zr["outcome"] == "return" else float("nan")
            exp = (ref.agresti_coull if pt["method"].lower() == "agresti-coull" else ref.wald)(pt["n"], pt["p"], z)
            ok = False
            if res["outcome"] == "return":
                lo, hi = [float(x["__float__"]) for x in res["value"]["__tuple__"]]
                ok = lo <= hi and ref.close(lo, exp[0]) and ref.close(hi, exp[1])
            if not ok:
                pt2["expected"] = list(exp)
                fail(pt2)
    return {"evaluations": evals, "failures": fails, "z": {repr(k): v for k, v in list(zs.items())},
            "bound": "n in %r x p in %r x confidence in %r x 4 spellings of the two methods; 11 unknown method names; alpha on a 1/2000 grid + tails" % (ns, ps, confs)}


LIFECYCLE_TEXTS = [
    'def e1 { splitters: uid return "A" weighted 1, "B" weighted 1 }',
    'def e2 { salt: "s" splitters: uid return "X" weighted 3, "Y" weighted 1 }',
    'def e1 { splitters: uid return "A" weighted 1, "B" weighted 9 }',
    'def e1 { splitters: uid /* c */ if uid == "u1" { return "P" weighted 1 } else { return "Q" weighted 1 } }',
    'def e1 { salt: "a  b" splitters: uid return "A" weighted 1, "B" weighted 1, "C" weighted 1 }',
    'def e1 { salt: "a b" splitters: uid return "A" weighted 1, "B" weighted 1, "C" weighted 1 }',
    'def e1 { splitters: uid return "A" weighted 1, "B" weighted 1 $ }',
    'def e1 { return "A" weighted }',
    'def e1 { splitters: uid return "A" weighted 1, "B" weighted 1 } }',
    'def e1 { splitters: uid return "A" weighted 1 } def e2 { splitters: uid return "B" weighted 1 }',
    'def e1 { splitters: uid return "a" weighted 12, "b" weighted 21 }',
    'def e1 { splitters: uid return "a" weighted 21, "b" weighted 12 }',
    'def',
    'def e1 { splitters: uid return "A" weighted 1, "B" weighted 1 ',
    '',
    'def e1 { salt: "x//1" splitters: uid return "A" weighted 1, "B" weighted 1, "C" weighted 1 }',
    'def e1 { salt: "x//2" splitters: uid return "A" weighted 1, "B" weighted 1, "C" weighted 1 }',
    'def e1 { salt: "a/*b*/c" splitters: uid return "A" weighted 1, "B" weighted 1, "C" weighted 1 }',
    'def e1 { salt: "a/*d*/c" splitters: uid return "A" weighted 1, "B" weighted 1, "C" weighted 1 }',
    'def e1 { return "p" weighted 0 }',       # grammatical, takes no field, and every call raises: loading it must not run it
]


@register("lifecycle_diff")
def lifecycle_diff(req):
    """bounded stand-in for C11: all operation sequences (recompile with valid/invalid texts on two evaluators, calls
    after every step) up to a length, real evaluators vs the model 'fresh evaluator built from the last accepted text'"""
    import contextlib
    import io
    import itertools
    from pyab_experiment.experiment_evaluator import ExperimentEvaluator
    maxlen = req.get("maxlen", 3)
    limit = req.get("limit", 3)
    texts = req.get("texts", LIFECYCLE_TEXTS)
    if req.get("maxlen", 3) <= 3 and not req.get("texts"):
        # quick tier: the four-step histories of the thorough tier use the whole alphabet; three-step ones a core subset
        skip = ('def e2 {', 'def e1 { splitters: uid /* c */', 'def e1 { splitters: uid return "A" weighted 1, "B" weighted 1 ', 'def e1 { splitters: uid return "A" weighted 1 } def e2',
                'def e1 { salt: "a/*')
        exact = ('def e1 { splitters: uid return "A" weighted 1, "B" weighted 1 ',)      # the truncated text (a PREFIX of several others: compare exactly)
        texts = [t for t in texts if t not in exact and not t.startswith(tuple(x for x in skip if x not in exact))]
    # values that compare (and hash) equal but print differently follow each other: a result remembered per argument value
    # instead of per printed key shows up against the per-call-fresh reference below
    inputs = [{"uid": "u1"}, {"uid": "u2"}, {"uid": 17}, {"uid": "u1", "extra": 1}, {"uid": 1}, {"uid": True}, {"uid": 1.0}, {"uid": 0}, {"uid": False}, {"uid": -0.0},
              {"uid": 2.0}, {"uid": 2}]
    sink = io.StringIO()

    def fresh(t):
        with contextlib.redirect_stdout(sink), contextlib.redirect_stderr(sink):
            return ExperimentEvaluator(t)

    def behaviour(ev):
        out = []
        for kw in inputs:
            r = outcome(ev, **kw)
            out.append((r["outcome"], r.get("value") if r["outcome"] == "return" else r.get("exc")))
        return out
    from spec import dsl_ref
    valid = {}
    ref = {}
    for t in texts:
        # validity is decided by the REFERENCE recogniser of the documented grammar, not by the code under test
        valid[t] = dsl_ref.parse_text(t)[0] == "ok"
        if valid[t]:
            try:
                # the reference answers every call on a brand-new evaluator, so nothing one call leaves behind can reach another
                ref[t] = []
                for kw in inputs:
                    r = outcome(fresh(t), **kw)
                    ref[t].append((r["outcome"], r.get("value") if r["outcome"] == "return" else r.get("exc")))
            except BaseException as e:   # noqa
                return {"evaluations": 1, "sequences": 0, "valid_texts": 0, "invalid_texts": 0,
                        "failures": [{"history": [["new", 0, t]], "what": "a grammatical text does not compile: %s" % type(e).__name__}], "bound": "alphabet check"}
    fails, evals, seqs = [], 0, 0
    ops = [(i, t) for i in (0, 1) for t in texts]
    for L in range(1, maxlen + 1):
        for seq in itertools.product(ops, repeat=L):
            seqs += 1
            evs = [None, None]
            accepted = [None, None]
            trace = []
            bad = None
            for (i, t) in seq:
                evals += 1
                trace.append(("new" if evs[i] is None else "recompile", i, t))
                with contextlib.redirect_stdout(sink), contextlib.redirect_stderr(sink):
                    if evs[i] is None:
                        try:
                            e = ExperimentEvaluator(t)
                            raised = False
                        except BaseException:   # noqa
                            raised = True
                        if raised != (not valid[t]):
                            bad = "construction %s for a text that is %s" % ("raised" if raised else "succeeded", "valid" if valid[t] else "invalid")
                        if not raised:
                            evs[i], accepted[i] = e, t
                    else:
                        try:
                            evs[i].recompile(t)
                            raised = False
                        except BaseException:   # noqa
                            raised = True
                        if raised != (not valid[t]):
                            bad = "recompile %s for a text that a fresh evaluator %s" % ("raised" if raised else "returned silently", "accepts" if valid[t] else "rejects")
                        if not raised and valid[t]:
                            accepted[i] = t
                if bad is None:
                    for j in (0, 1):
                        if evs[j] is not None and behaviour(evs[j]) != ref[accepted[j]]:
                            bad = "evaluator %d does not behave like a fresh evaluator of its last accepted text" % j
                if bad:
                    break
            if bad and len(fails) < limit:
                fails.append({"history": trace, "what": bad})
            if len(fails) >= limit:
                break
        if len(fails) >= limit:
            break
    return {"evaluations": evals, "sequences": seqs, "failures": fails, "valid_texts": sum(valid.values()), "invalid_texts": len(texts) - sum(valid.values()),
            "bound": "all sequences of length <= %d over {new/recompile(e_i, t)} with 2 evaluators x %d texts; %d calls on every evaluator after every step, reference = a fresh evaluator per call" % (maxlen, len(texts), len(inputs))}


CORPUS_EXTRA = [
    'def e{splitters:u return "blue" weighted 1,"green" weighted 1,"blue" weighted 1,"red" weighted 1,"green" weighted 2}',
    'def e{splitters:zeta,alpha,mid,beta return "a" weighted 1,"b" weighted 1,"c" weighted 1,"d" weighted 1}',
    'def e{return "A" weighted 1,"B" weighted 1}',
    'def e{splitters:u if t<-5{return -1 weighted 1,-2.5 weighted 1}else if x in(-1,7,-0.5){return "n" weighted 1}else if -3==y{return "m" weighted 1}else{return "p" weighted 1}}',
    'def e{salt:"s" splitters:a,b if a>=1 and not b in(1,2)or a<=-3{return 1 weighted 1}else if a!=2{return 2.5 weighted 0.5}else{return "x" weighted 2}}',
    'def e{splitters:u if x not in("p","q"){if y=="z"{return "A" weighted 1}}else{return "B" weighted 1}}',
    'def e {\n splitters: u\n if x not\n in (1, 2) {\n return "A" weighted 1\n } else\n if x == 1 {\n return "B" weighted 1\n } else\n\n {\n return "C" weighted 1\n }\n}',
]


def corpus():
    import glob
    import os
    from native.helper import REPO
    texts = []
    for f in sorted(glob.glob(os.path.join(REPO, "tests", "unit", "test_programs", "*.pyab"))):
        with open(f) as fh:
            texts.append(fh.read())
    return texts + CORPUS_EXTRA


@register("trivia_diff")
def trivia_diff(req):
    """bounded stand-in for C08: insert trivia between every pair of adjacent tokens (and at both ends) of corpus
    programs; the parsed AST must not change"""
    import contextlib
    import io
    import random
    import pyab_experiment.language.lexer as lx
    from pyab_experiment.utils.wraper_functions import parse_source
    rnd = random.Random(req.get("seed", 0))
    pool = req.get("pool", [" ", "\n", "\t \n", "/* x */", "/* a */ /* b */", "// c\n", "/* ' \" // * if def */", "/*\n*\n*/", "/**/", "/* * / */", "//\n", "/* a */\t/* b */ // c\n",
                            "// a\x0c, \"Z\" weighted 9\n", "// a\u2028 b \u2029 c \x85 d \x1c e\n", "/* a\x0c b \u2028 */", "\r\n", "\x0b", "// \r x\n", "// path C:\\exp\\\n", "// \\\n", "/* 2*3 */", "/* a*b **/", "/** x **/", "/* \x00 */", "/*/ x */", "/*// x */", "/*/*/", "/*/ , \"Z\" weighted 9 /* */",
                            # comments whose text contains the words of keywords and two-word operators
                            "// was: else if x in (1) not in y\n", "/* else if not in */", "// if\n", "// in\n", "// not in def return weighted salt splitters and or\n", "/* if */ /* in */"])
    fails, evals, limit = [], 0, req.get("limit", 3)
    sink = io.StringIO()

    def parse(t):
        with contextlib.redirect_stdout(sink), contextlib.redirect_stderr(sink):
            try:
                return ("ok", parse_source(t))
            except BaseException as e:   # noqa
                return ("raise", type(e).__name__)
    progs = 0
    for text in corpus():
        base = parse(text)
        if base[0] != "ok" or base[1] is None:
            continue
        progs += 1
        # token boundaries as the DOCUMENTED scanner sees them (the code under test must not decide where trivia may go)
        from spec import lex_ref
        spans = []
        if lex_ref.scan(text, spans)[0] != "ok":
            continue
        cuts = sorted({0, len(text)} | {e for _, e in spans} | {s for s, _ in spans})
        # adjacent-token positions where inserting trivia cannot glue or split tokens: only at token boundaries
        # that are already separated (a boundary between two tokens, or text ends)
        bounds = [c for c in cuts]
        for c in bounds:
            for tr in pool:
                # a // comment must be terminated by a newline, which the pool entries provide
                v = text[:c] + " " + tr + " " + text[c:]
                evals += 1
                r = parse(v)
                if not (r[0] == "ok" and r[1] == base[1]):
                    if len(fails) < limit:
                        fails.append({"program": text[:80], "inserted": tr, "at": c, "variant": v[:300], "observed": r[0] if r[0] != "ok" else "different AST"})
        for _ in range(req.get("random_variants", 20)):
            v, off = text, 0
            for c in sorted(rnd.sample(bounds, min(len(bounds), 6))):
                tr = " " + rnd.choice(pool) + " "
                v = v[:c + off] + tr + v[c + off:]
                off += len(tr)
            evals += 1
            r = parse(v)
            if not (r[0] == "ok" and r[1] == base[1]) and len(fails) < limit:
                fails.append({"program": text[:80], "variant": v[:400], "observed": r[0] if r[0] != "ok" else "different AST"})
    return {"evaluations": evals, "programs": progs, "failures": fails,
            "bound": "%d corpus programs x every token boundary x %d trivia strings + random multi-insertions" % (progs, len(pool))}


TRANSCRIPT_PROGRAMS = [
    'def e1 { splitters: uid return "A" weighted 1, "B" weighted 1, "C" weighted 2 }',
    'def e2 { salt: "s1" splitters: uid, country return "A" weighted 1, "B" weighted 3 }',
    'def e3 { salt: "café" splitters: b, a, c, a if age >= 18 and country in ("US", "CA") { return "x" weighted 1, "y" weighted 1 } else { return "z" weighted 1, "w" weighted 2 } }',
    'def e4 { splitters: uid, UID, Uid, zeta, alpha return 1 weighted 1, 2 weighted 1, 3 weighted 1, 4 weighted 1 }',
]


@register("transcript")
def transcript(req):
    """C01 bounded: assignments of a fixed corpus, to be compared ACROSS interpreter processes (hash seed, locale, cwd)"""
    import contextlib
    import io
    import os
    from pyab_experiment.experiment_evaluator import ExperimentEvaluator
    out = []
    sink = io.StringIO()
    for text in TRANSCRIPT_PROGRAMS:
        with contextlib.redirect_stdout(sink), contextlib.redirect_stderr(sink):
            ev = ExperimentEvaluator(text)
            ev2 = ExperimentEvaluator(text)
        row = []
        for i in range(req.get("n", 60)):
            env = {"uid": "user_%d" % i, "UID": i, "Uid": "%d" % (i % 7), "zeta": 1.5 * i, "alpha": None if i % 3 else True, "country": ["US", "CA", "FR"][i % 3], "age": 10 + i,
                   "a": "a%d" % i, "b": i, "c": "café", }
            r1 = outcome(ev, **env)
            ev2.recompile(TRANSCRIPT_PROGRAMS[0])
            ev2.recompile(text)
            r2 = outcome(ev2, **dict(reversed(list(env.items()))))
            r3 = outcome(ev, **env)
            row.append([r1.get("value", r1.get("exc")), r2.get("value", r2.get("exc")), r3.get("value", r3.get("exc"))])
        out.append(row)
    return {"rows": out, "hashseed": os.environ.get("PYTHONHASHSEED"), "lang": os.environ.get("LANG"), "cwd": os.getcwd()}


@register("thread_stress")
def thread_stress(req):
    """C17 bounded / replay attempt: threads construct, recompile and evaluate concurrently at a 1 microsecond switch
    interval; every result must equal the sequential reference; a call racing with a recompile sees old or new"""
    import contextlib
    import io
    import sys
    import threading
    import time
    from pyab_experiment.experiment_evaluator import ExperimentEvaluator
    texts = ['def e1 { /* c1 */ splitters: uid /* c2 */ if x >= 1 { return "A" weighted 1, "B" weighted 1 } else { return "C" weighted 1 } /* c3 */ }',
             'def e2 { salt: "s" splitters: uid // lc\n if x in (1, 2, 3) and not y == "q" or x > 10 { return "P" weighted 1, "Q" weighted 3 } else if x < 0 { return "N" weighted 1 } else { return "R" weighted 1, "S" weighted 1 } }']
    envs = [{"uid": "u%d" % i, "x": i % 5 - 1, "y": "q" if i % 2 else "z"} for i in range(12)]
    sink = io.StringIO()
    ref = []
    with contextlib.redirect_stdout(sink), contextlib.redirect_stderr(sink):
        for t in texts:
            ev = ExperimentEvaluator(t)
            ref.append([outcome(ev, **e).get("value") for e in envs])
    old = sys.getswitchinterval()
    sys.setswitchinterval(1e-6)
    errors = []
    stop = time.time() + req.get("seconds", 2.0)
    shared = ExperimentEvaluator(texts[0])
    counts = {"ops": 0}

    def worker(k):
        n = 0
        try:
            while time.time() < stop:
                j = (n + k) % 2
                ev = ExperimentEvaluator(texts[j])
                got = [outcome(ev, **e).get("value") for e in envs]
                if got != ref[j]:
                    errors.append({"what": "construction under concurrency gave a different evaluator", "text": j})
                if k % 2 == 0:
                    shared.recompile(texts[n % 2])
                else:
                    r = outcome(shared, **envs[n % len(envs)])
                    i = n % len(envs)
                    if r["outcome"] != "return" or r["value"] not in (ref[0][i], ref[1][i]):
                        errors.append({"what": "call racing with recompile saw neither old nor new", "observed": r})
                n += 1
        except BaseException as e:   # noqa
            errors.append({"what": "exception in worker", "exc": repr(e)[:200]})
        counts["ops"] += n
    try:
        with contextlib.redirect_stdout(sink), contextlib.redirect_stderr(sink):
            ths = [threading.Thread(target=worker, args=(k,)) for k in range(req.get("threads", 8))]
            for t in ths:
                t.start()
            for t in ths:
                t.join()
    finally:
        sys.setswitchinterval(old)
    return {"evaluations": counts["ops"], "failures": errors[:3], "bound": "%d threads, %.1f s, switch interval 1e-6" % (req.get("threads", 8), req.get("seconds", 2.0))}
