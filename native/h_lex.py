"""Native side of rxvc: dump the LIVE lexer tables (the objects sly's tokenize consults), Python's own parse of each
regex, and the alphabet partition computed with the product interpreter's Unicode database."""
import io
import contextlib
import re
import sys

from native.helper import register, outcome, enc

try:
    import re._parser as sre_parse      # 3.11+
    import re._constants as sre_c
except ImportError:                      # pragma: no cover
    import sre_parse
    import sre_constants as sre_c


def ser(tree):
    out = []
    for op, av in tree:
        name = str(op)
        if op is sre_c.LITERAL or op is sre_c.NOT_LITERAL:
            out.append([name, av])
        elif op is sre_c.ANY:
            out.append([name, None])
        elif op is sre_c.IN:
            items = []
            for o, a in av:
                if o is sre_c.NEGATE:
                    items.append(["NEGATE", None])
                elif o is sre_c.LITERAL:
                    items.append(["LITERAL", a])
                elif o is sre_c.RANGE:
                    items.append(["RANGE", [a[0], a[1]]])
                elif o is sre_c.CATEGORY:
                    items.append(["CATEGORY", str(a)])
                else:
                    items.append(["UNSUPPORTED", str(o)])
            out.append([name, items])
        elif op in (sre_c.MAX_REPEAT, sre_c.MIN_REPEAT, getattr(sre_c, "POSSESSIVE_REPEAT", None)):
            lo, hi, sub = av
            out.append([name, [lo, None if hi == sre_c.MAXREPEAT else hi, ser(sub)]])
        elif op is sre_c.SUBPATTERN:
            out.append([name, [av[0], av[1], av[2], ser(av[3])]])
        elif op is sre_c.BRANCH:
            out.append([name, [ser(b) for b in av[1]]])
        elif op is sre_c.AT:
            out.append([name, str(av)])
        elif op in (sre_c.ASSERT, sre_c.ASSERT_NOT):
            out.append([name, [av[0], ser(av[1])]])
        elif op is sre_c.CATEGORY:
            out.append([name, str(av)])
        else:
            out.append(["UNSUPPORTED", str(op)])
    return out


def state_table(cls):
    rules = []
    for tokname, value in cls._rules:
        ignored = tokname.startswith("ignore_")
        name = tokname[7:] if ignored else tokname
        pattern = value if isinstance(value, str) else getattr(value, "pattern")
        rules.append({"name": name, "rule": tokname, "pattern": pattern, "ignored": name in cls._ignored_tokens,
                      "has_func": name in cls._token_funcs, "tree": ser(sre_parse.parse(pattern, cls.reflags))})
    return {"class": cls.__qualname__, "rules": rules, "master": cls._master_re.pattern, "master_flags": int(cls._master_re.flags), "reflags": int(cls.reflags),
            "ignore": cls.ignore, "literals": sorted(cls.literals), "remapping": {k: dict(v) for k, v in cls._remapping.items()},
            "tokens": sorted(cls.tokens), "error_is_default": cls.error is __import__("pyab_experiment.sly.lex", fromlist=["Lexer"]).Lexer.error}


@register("lexer_tables")
def lexer_tables(req):
    import pyab_experiment.language.lexer as lx
    from pyab_experiment.sly.lex import LexerMeta
    states = {}
    for name in dir(lx):
        c = getattr(lx, name)
        if isinstance(c, LexerMeta) and c.__module__ == lx.__name__:
            states[name] = state_table(c)
    return {"states": states, "python": sys.version.split()[0], "unicode": __import__("unicodedata").unidata_version}


def _cat(ch, cat):
    if cat == "CATEGORY_SPACE":
        return ch.isspace()
    if cat == "CATEGORY_NOT_SPACE":
        return not ch.isspace()
    if cat == "CATEGORY_DIGIT":
        return ch.isdecimal()
    if cat == "CATEGORY_NOT_DIGIT":
        return not ch.isdecimal()
    if cat == "CATEGORY_WORD":
        return ch.isalnum() or ch == "_"
    if cat == "CATEGORY_NOT_WORD":
        return not (ch.isalnum() or ch == "_")
    raise ValueError(cat)


def member(ch, spec):
    """membership of one character in a set spec: ["ANY"] | ["LITERAL", cp] | ["IN", items] | ["CATEGORY", name]"""
    kind = spec[0]
    cp = ord(ch)
    if kind == "ANY":
        return ch != "\n"
    if kind == "LITERAL":
        return cp == spec[1]
    if kind == "NOT_LITERAL":
        return cp != spec[1]
    if kind == "CATEGORY":
        return _cat(ch, spec[1])
    if kind == "IN":
        neg, r = False, False
        for o, a in spec[1]:
            if o == "NEGATE":
                neg = True
            elif o == "LITERAL":
                r = r or cp == a
            elif o == "RANGE":
                r = r or a[0] <= cp <= a[1]
            elif o == "CATEGORY":
                r = r or _cat(ch, a)
            else:
                raise ValueError(o)
        return r != neg
    raise ValueError(kind)


@register("alphabet")
def alphabet(req):
    """partition all code points by membership in the given sets; return one representative per class, the
    membership matrix, and a cross-check of the membership semantics against the real `re` on the representatives"""
    sets = req["sets"]
    sig = {}
    size = {}
    hi = req.get("max_cp", 0x10FFFF)

    def maxcp(spec):
        if spec[0] in ("LITERAL", "NOT_LITERAL"):
            return spec[1]
        if spec[0] == "IN":
            m = 0
            for o, a in spec[1]:
                if o == "LITERAL":
                    m = max(m, a)
                elif o == "RANGE":
                    m = max(m, a[1])
            return m
        return 0
    bound = max([maxcp(s) for s in sets] + [127]) + 1
    # below `bound`: every code point evaluated against every set.  At and above it no literal or range endpoint
    # occurs, so membership depends only on the three Unicode categories: one full evaluation per category combination
    for cp in range(min(bound, hi + 1)):
        ch = chr(cp)
        k = tuple(member(ch, s) for s in sets)
        if k not in sig:
            sig[k] = cp
            size[k] = 0
        size[k] += 1
    combo = {}
    for cp in range(bound, hi + 1):
        ch = chr(cp)
        c = (ch.isspace(), ch.isdecimal(), ch.isalnum())
        e = combo.get(c)
        if e is None:
            combo[c] = [cp, 1]
        else:
            e[1] += 1
    for c, (cp, cnt) in combo.items():
        ch = chr(cp)
        k = tuple(member(ch, s) for s in sets)
        if k not in sig:
            sig[k] = cp
            size[k] = 0
        size[k] += cnt
    reps = sorted(sig.values())
    inv = {v: k for k, v in sig.items()}
    matrix = [[bool(x) for x in inv[cp]] for cp in reps]
    # cross-check with the real regex engine: each set compiled as a one-character pattern
    mism = []
    import random
    rnd = random.Random(0)
    sample = list(reps) + [rnd.randrange(0, hi + 1) for _ in range(req.get("xcheck", 3000))]
    for si, s in enumerate(sets):
        pat = req["patterns"][si]
        if pat is None:
            continue
        cre = re.compile(pat)
        for cp in sample:
            ch = chr(cp)
            if bool(cre.fullmatch(ch)) != member(ch, s):
                mism.append([si, cp])
                if len(mism) > 5:
                    break
    return {"reps": reps, "matrix": matrix, "class_sizes": [size[inv[cp]] for cp in reps], "mismatches": mism, "checked": len(sample) * len(sets)}


@register("tokenize")
def tokenize(req):
    """run the real lexer on texts: token (type, value) streams, printed diagnostics, exception, final lexer state"""
    import pyab_experiment.language.lexer as lx
    out = []
    for text in req["texts"]:
        buf = io.StringIO()
        toks, exc = [], None
        lexer = lx.ExperimentLexer()
        try:
            with contextlib.redirect_stdout(buf):
                for t in lexer.tokenize(text):
                    toks.append([t.type, enc(t.value)])
        except BaseException as e:   # noqa
            exc = type(e).__name__
        out.append({"tokens": toks, "exc": exc, "printed": buf.getvalue()[:200], "final_state": type(lexer).__name__})
    return out


@register("parse_patterns")
def parse_patterns(req):
    return [ser(sre_parse.parse(p)) for p in req["patterns"]]


@register("lex_diff")
def lex_diff(req):
    """bounded differential: real ExperimentLexer.tokenize vs spec.lex_ref.scan on all strings up to a length over a
    pool of characters (plus given extra texts).  'reject' for the real lexer = an exception or any diagnostic print."""
    import itertools
    import pyab_experiment.language.lexer as lx
    from spec import lex_ref
    pool = req["pool"]
    maxlen = req.get("maxlen", 4)
    texts = list(req.get("texts", []))
    fails, n = [], 0
    limit = req.get("limit", 5)

    def real(text):
        buf = io.StringIO()
        lexer = lx.ExperimentLexer()
        try:
            with contextlib.redirect_stdout(buf):
                toks = [(t.type, t.value) for t in lexer.tokenize(text)]
        except BaseException as e:   # noqa
            return ("reject", type(e).__name__)
        if buf.getvalue():
            return ("repaired", toks, buf.getvalue()[:60])
        return ("ok", toks)

    def gen():
        for t in texts:
            yield t
        for L in range(1, maxlen + 1):
            for tup in itertools.product(pool, repeat=L):
                yield "".join(tup)
    for text in gen():
        n += 1
        r, s = real(text), lex_ref.scan(text)
        same = (r[0] == "ok" and s[0] == "ok" and [(a, b, type(b).__name__) for a, b in r[1]] == [(a, b, type(b).__name__) for a, b in s[1]]) or \
               (r[0] == "reject" and s[0] == "reject")
        if not same and len(fails) < limit:
            fails.append({"text": text, "real": enc(list(r)), "ref": enc(list(s))})
    return {"evaluations": n, "failures": fails}


@register("parser_tables")
def parser_tables(req):
    """the LIVE grammar objects sly's LR driver consults: productions (with the action function's source line and the
    attribute names sly gives its right-hand side), precedence, conflicts, start symbol, how `error` resolves"""
    from pyab_experiment.language.grammar import ExperimentParser as P
    from pyab_experiment.sly.yacc import Parser
    g = P._grammar
    prods = []
    for p in g.Productions[1:]:
        f = p.func
        prods.append({"number": p.number, "name": p.name, "rhs": list(p.prod), "prec": list(p.prec), "names": list(p.namemap.keys()),
                      "func": getattr(f, "__qualname__", None), "lineno": f.__code__.co_firstlineno if f is not None else None})
    # probe of the accessors the grammar actions use (p.NAME / p.NAMEk / p[i] / len(p)) on the LIVE production objects, through
    # the real YaccProduction wrapper: a slice of distinct sentinel symbols must come back at the documented positions
    from pyab_experiment.sly.yacc import YaccProduction, YaccSymbol
    probes = []
    for p in g.Productions[1:]:
        syms = []
        for i, x in enumerate(p.prod):
            sy = YaccSymbol()
            sy.type, sy.value = x, "sentinel-%d" % i
            syms.append(sy)
        ps = YaccProduction(list(syms), [])
        ps._namemap = p.namemap
        got = {}
        for k in p.namemap:
            try:
                got[k] = getattr(ps, k)
            except Exception as e:   # noqa
                got[k] = "raised %s" % type(e).__name__
        idx = []
        for i in range(len(p.prod)):
            try:
                idx.append(ps[i])
            except Exception as e:   # noqa
                idx.append("raised %s" % type(e).__name__)
        try:
            unknown = getattr(ps, "NO_SUCH_SYMBOL_")
            unknown = "returned %r" % (unknown,)
        except AttributeError:
            unknown = "AttributeError"
        except Exception as e:   # noqa
            unknown = "raised %s" % type(e).__name__
        probes.append({"number": p.number, "len_attr": p.len, "len_fn": len(ps), "by_name": got, "by_index": idx, "unknown_name": unknown})
    lr = P._lrtable
    lr_tables = {"action": {str(k): dict(v) for k, v in lr.lr_action.items()}, "goto": {str(k): dict(v) for k, v in lr.lr_goto.items()},
                 "defaulted": {str(k): v for k, v in lr.defaulted_states.items()}}
    return {"lr": lr_tables, "accessor_probes": probes, "productions": prods, "precedence": {k: list(v) for k, v in g.Precedence.items()}, "start": g.Start,
            "sr_conflicts": [list(map(str, c)) for c in lr.sr_conflicts], "rr_conflicts": [list(map(str, c)) for c in lr.rr_conflicts],
            "tokens": sorted(P.tokens), "terminals": sorted(t for t in g.Terminals if t not in ("error",)),
            "error_is_sly_default": P.error is Parser.error, "error_owner": P.error.__qualname__,
            "has_error_productions": any("error" in p.prod for p in g.Productions)}
