"""rxvc obligations: the live lexer tables vs the documented scanner, as emptiness queries over marked words m§r
('at a position whose remaining text is m·r the scanner takes this alternative with match m')."""
from __future__ import annotations

from . import dfa
from .dfa import DFA
from .rx import Alphabet, Rule, Unsupported, collect_sets, WORD
from vcore.obl import Obl, DISCHARGED, REFUTED, UNDECIDED, ERROR


class Tables:
    """everything rxvc needs, built once per run from the native dumps"""

    def __init__(self, native):
        from spec import lex_ref
        self.dump = native.one({"cmd": "lexer_tables"})
        ref_pats = [p for _, p, _ in lex_ref.TOKENS + lex_ref.TRIVIA] + [r"\w", r"\s", r"[^\n]", r"\*", r"/", r"\n"]
        ref_trees = native.one({"cmd": "parse_patterns", "patterns": ref_pats})
        sets = []
        for st in self.dump["states"].values():
            for r in st["rules"]:
                collect_sets(r["tree"], sets)
        for t in ref_trees:
            collect_sets(t, sets)
        sets.append(WORD)
        uniq, seen = [], set()
        import json
        for s in sets:
            k = json.dumps(s, sort_keys=True)
            if k not in seen:
                seen.add(k)
                uniq.append(s)
        pats = [set_pattern(u) for u in uniq]
        a = native.one({"cmd": "alphabet", "sets": uniq, "patterns": pats})
        self.alpha_xcheck = {"mismatches": a["mismatches"], "checked": a["checked"]}
        self.alpha = Alphabet(uniq, a["reps"], a["matrix"], a["class_sizes"])
        self.alpha_info = {"classes": len(a["reps"]), "sets": len(uniq), "unicode": self.dump["unicode"], "python": self.dump["python"]}
        self.ref_trees = dict(zip(ref_pats, ref_trees))
        self.lex_ref = lex_ref


_CATS = {"CATEGORY_SPACE": r"\s", "CATEGORY_NOT_SPACE": r"\S", "CATEGORY_DIGIT": r"\d", "CATEGORY_NOT_DIGIT": r"\D",
         "CATEGORY_WORD": r"\w", "CATEGORY_NOT_WORD": r"\W"}


def set_pattern(spec):
    """a one-character regex for a set spec, used to cross-check the membership semantics against the real `re`"""
    import re
    k = spec[0]
    if k == "ANY":
        return "."
    if k == "LITERAL":
        return re.escape(chr(spec[1]))
    if k == "NOT_LITERAL":
        return "[^%s]" % re.escape(chr(spec[1]))
    if k == "CATEGORY":
        return _CATS[spec[1]]
    if k == "IN":
        body, neg = "", False
        for o, a in spec[1]:
            if o == "NEGATE":
                neg = True
            elif o == "LITERAL":
                body += re.escape(chr(a))
            elif o == "RANGE":
                body += "%s-%s" % (re.escape(chr(a[0])), re.escape(chr(a[1])))
            elif o == "CATEGORY":
                body += _CATS[a]
        return "[%s%s]" % ("^" if neg else "", body)
    return None


def P(L, K, al):
    return dfa.cat(L, DFA.sym(al.k, [al.mark]), K)


class Picks:
    """pick languages of one ordered rule table under first-alternative-wins + preferred-match semantics"""

    def __init__(self, rules, al):
        self.al = al
        self.rules = rules
        k = al.k
        allw = DFA.all_words(k, al.all())
        self.well = dfa.cat(allw, DFA.sym(k, [al.mark]), allw)
        self.pick = {}
        earlier = DFA.empty(k)
        for r in rules:
            pk = DFA.empty(k)
            anyp = DFA.empty(k)
            for br, mode in zip(r.branches, r.modes):
                L = r.branch_lang(br)
                K = r.follow(br)
                cand = P(L, K, al)
                longer = dfa.cat(dfa.insert_marker(L, al.mark, proper=True), K)
                if mode == "unique":
                    pb = cand
                    # sanity of the classification: no longer admissible candidate can exist
                    if not (cand & longer).is_empty():
                        raise Unsupported("rule %s classified unique but has two admissible prefixes" % r.name)
                elif mode == "longest":
                    pb = cand - longer
                else:
                    if br.wb or br.ahead is not None:
                        raise Unsupported("lazy match with \\b / lookahead")
                    shorter = dfa.cat(L, dfa.plus(DFA.sym(k, al.all())), DFA.sym(k, [al.mark]), allw)
                    pb = cand - shorter
                pk = pk | pb
                anyp = anyp | dfa.insert_marker(dfa.cat(L, K), al.mark)
            self.pick[r.name] = (pk - earlier) & self.well
            earlier = earlier | anyp
        self.any_match = earlier


def ref_picks(T):
    """documented scanner: longest admissible candidate, ties by table order"""
    al = T.alpha
    k = al.k
    table = T.lex_ref.TOKENS + T.lex_ref.TRIVIA
    rules = []
    for name, pat, wb in table:
        tree = T.ref_trees[pat]
        if wb:
            tree = tree + [["AT", "AT_BOUNDARY"]]
        rules.append(Rule(name, pat, tree, al))
    cands, longers = {}, DFA.empty(k)
    for r in rules:
        c = DFA.empty(k)
        for br in r.branches:
            L, K = r.branch_lang(br), r.follow(br)
            c = c | P(L, K, al)
            longers = longers | dfa.cat(dfa.insert_marker(L, al.mark, proper=True), K)
        cands[r.name] = c
    picks = {}
    higher = DFA.empty(k)
    for r in rules:
        picks[r.name] = (cands[r.name] - longers) - higher
        higher = higher | cands[r.name]
    return picks, rules


def erase_marker(d, al):
    """{ u v : u MARK v in L(d) } as a language over text symbols"""
    n = dfa.NFA(al.k)
    s, f = n.embed(d)
    n.start, n.finals = s, f
    for q in range(len(n.tr)):
        tgt = n.tr[q].pop(al.mark, None)
        if tgt:
            n.eps[q] |= tgt
    return n.determinize()


def emptiness_obl(oid, fn, text, lang, al, props, replay=None, kind="regex"):
    """the obligation `lang = {}`; lang is built eagerly (cheap), decided here (complete procedure)"""
    import time
    t0 = time.time()
    w = lang.witness()
    if w is None:
        o = Obl(oid, fn, kind, text, status=DISCHARGED, backend="dfa", detail="language empty (%d-state DFA)" % lang.n, props=props)
    else:
        word = al.word(w)
        o = Obl(oid, fn, kind, text, status=REFUTED, backend="dfa", detail="witness %r" % word, model={"witness": word}, props=props, replay=replay)
    o.time_s = time.time() - t0
    return o
