"""rxvc -- a small, complete decision procedure for regular languages over a finite (compressed) alphabet.

Languages are complete DFAs over symbols 0..k-1 (the last symbol may be the marker).  All Boolean operations,
concatenation, star, marker insertion, emptiness with shortest witness.  Pure Python; automata here have tens of
states, so no cleverness is needed -- determinism and completeness make every query a graph search.
"""
from __future__ import annotations

from collections import deque


class DFA:
    __slots__ = ("k", "trans", "acc", "start")

    def __init__(self, k, trans, acc, start=0):
        self.k, self.trans, self.acc, self.start = k, trans, acc, start   # trans[q][a] -> q'

    @property
    def n(self):
        return len(self.trans)

    # ---- basic constructors
    @staticmethod
    def empty(k):
        return DFA(k, [[0] * k], [False])

    @staticmethod
    def eps(k):
        return DFA(k, [[1] * k, [1] * k], [True, False])

    @staticmethod
    def sym(k, symbols):
        s = set(symbols)
        return DFA(k, [[1 if a in s else 2 for a in range(k)], [2] * k, [2] * k], [False, True, False])

    @staticmethod
    def all_words(k, symbols):
        s = set(symbols)
        return DFA(k, [[0 if a in s else 1 for a in range(k)], [1] * k], [True, False])

    # ---- boolean
    def complement(self):
        return DFA(self.k, self.trans, [not x for x in self.acc], self.start)

    def product(self, other, op):
        assert self.k == other.k
        k = self.k
        idx = {(self.start, other.start): 0}
        todo = deque([(self.start, other.start)])
        trans, acc = [], []
        while todo:
            p, q = todo.popleft()
            row = []
            for a in range(k):
                t = (self.trans[p][a], other.trans[q][a])
                if t not in idx:
                    idx[t] = len(idx)
                    todo.append(t)
                row.append(idx[t])
            trans.append(row)
            acc.append(op(self.acc[p], other.acc[q]))
        # rows were appended in BFS order == index order
        return DFA(k, trans, acc, 0)

    def __and__(self, o):
        return self.product(o, lambda x, y: x and y).minimize()

    def __or__(self, o):
        return self.product(o, lambda x, y: x or y).minimize()

    def __sub__(self, o):
        return self.product(o, lambda x, y: x and not y).minimize()

    def __invert__(self):
        return self.complement()

    # ---- emptiness / witness
    def witness(self):
        """shortest accepted word (list of symbols) or None"""
        prev = {self.start: None}
        todo = deque([self.start])
        while todo:
            q = todo.popleft()
            if self.acc[q]:
                w = []
                while prev[q] is not None:
                    q, a = prev[q]
                    w.append(a)
                return w[::-1]
            for a in range(self.k):
                t = self.trans[q][a]
                if t not in prev:
                    prev[t] = (q, a)
                    todo.append(t)
        return None

    def is_empty(self):
        return self.witness() is None

    def accepts(self, word):
        q = self.start
        for a in word:
            q = self.trans[q][a]
        return self.acc[q]

    # ---- minimisation (Moore) restricted to reachable states
    def minimize(self):
        k = self.k
        reach = {self.start}
        todo = [self.start]
        while todo:
            q = todo.pop()
            for a in range(k):
                t = self.trans[q][a]
                if t not in reach:
                    reach.add(t)
                    todo.append(t)
        states = sorted(reach)
        part = {q: (1 if self.acc[q] else 0) for q in states}
        while True:
            sig = {q: (part[q],) + tuple(part[self.trans[q][a]] for a in range(k)) for q in states}
            ids = {}
            newpart = {}
            for q in states:
                newpart[q] = ids.setdefault(sig[q], len(ids))
            if len(ids) == len(set(part.values())):
                part = newpart
                break
            part = newpart
        nb = len(set(part.values()))
        trans = [None] * nb
        acc = [False] * nb
        for q in states:
            b = part[q]
            if trans[b] is None:
                trans[b] = [part[self.trans[q][a]] for a in range(k)]
                acc[b] = self.acc[q]
        return DFA(k, trans, acc, part[self.start])


class NFA:
    """epsilon-NFA used for concatenation / star, determinised on demand"""

    def __init__(self, k):
        self.k = k
        self.eps = []      # eps[q] -> set of states
        self.tr = []       # tr[q] -> {a: set}
        self.start = None
        self.finals = set()

    def new(self):
        self.eps.append(set())
        self.tr.append({})
        return len(self.eps) - 1

    def embed(self, d: DFA):
        off = len(self.eps)
        for q in range(d.n):
            self.new()
        for q in range(d.n):
            for a in range(d.k):
                self.tr[off + q].setdefault(a, set()).add(off + d.trans[q][a])
        return off + d.start, {off + q for q in range(d.n) if d.acc[q]}

    def closure(self, states):
        out = set(states)
        todo = list(states)
        while todo:
            q = todo.pop()
            for t in self.eps[q]:
                if t not in out:
                    out.add(t)
                    todo.append(t)
        return frozenset(out)

    def determinize(self):
        k = self.k
        s0 = self.closure({self.start})
        idx = {s0: 0}
        todo = deque([s0])
        trans, acc = [], []
        while todo:
            S = todo.popleft()
            row = []
            for a in range(k):
                T = set()
                for q in S:
                    T |= self.tr[q].get(a, set())
                T = self.closure(T)
                if T not in idx:
                    idx[T] = len(idx)
                    todo.append(T)
                row.append(idx[T])
            trans.append(row)
            acc.append(bool(S & self.finals))
        return DFA(k, trans, acc, 0).minimize()


def cat(*ds):
    ds = [d for d in ds]
    k = ds[0].k
    n = NFA(k)
    prev_finals = None
    for i, d in enumerate(ds):
        s, f = n.embed(d)
        if i == 0:
            n.start = s
        else:
            for q in prev_finals:
                n.eps[q].add(s)
        prev_finals = f
    n.finals = prev_finals
    return n.determinize()


def star(d):
    n = NFA(d.k)
    s, f = n.embed(d)
    st = n.new()
    n.start = st
    n.eps[st].add(s)
    for q in f:
        n.eps[q].add(st)
    n.finals = {st}
    return n.determinize()


def plus(d):
    return cat(d, star(d))


def opt(d):
    return d | DFA.eps(d.k)


def union(*ds):
    r = ds[0]
    for d in ds[1:]:
        r = r | d
    return r


def insert_marker(d, mark, proper=False, at_least_one_before=False):
    """{ u MARK v : u v in L(d) }   (d must not use MARK).  proper: v != eps.  at_least_one_before: u != eps."""
    k = d.k
    # states: (q, phase) phase 0 = before marker (no symbol yet), 1 = before marker (>=1 symbol), 2 = just after marker, 3 = after marker >= 1 symbol
    idx = {}
    trans, acc = [], []

    def get(s):
        if s not in idx:
            idx[s] = len(idx)
            trans.append(None)
            acc.append(False)
        return idx[s]
    dead = get(("dead", 0))
    start = get((d.start, 0))
    todo = deque([(d.start, 0)])
    seen = {(d.start, 0)}
    while todo:
        q, ph = todo.popleft()
        row = []
        for a in range(k):
            if a == mark:
                if ph in (0, 1) and (not at_least_one_before or ph == 1):
                    t = (q, 2)
                else:
                    t = None
            else:
                nq = d.trans[q][a]
                t = (nq, 1 if ph in (0, 1) else 3)
            if t is None:
                row.append(dead)
            else:
                if t not in seen:
                    seen.add(t)
                    todo.append(t)
                row.append(get(t))
        i = get((q, ph))
        trans[i] = row
        acc[i] = d.acc[q] and (ph == 3 or (ph == 2 and not proper))
    trans[dead] = [dead] * k
    return DFA(k, trans, acc, start).minimize()
