"""rxvc: from Python's own parse of a lexer regex (serialised by native/h_lex.py) to
  * its plain language L (DFA over the compressed alphabet),
  * its lookahead constraint K (what may follow the match: anything, or 'not a word character / end' for a trailing \\b),
  * the classification of its PREFERRED match under Python's backtracking semantics: unique | longest | shortest,
    by a syntactic criterion (below).  Anything outside the criterion => Unsupported => the obligation is UNDECIDED.

Criterion.  A rule is a top-level alternation of branches with pairwise disjoint first-character sets (so the branch
is determined by the first character).  A branch is a concatenation of items, each a character set or a
greedy/lazy-quantified character set (x*, x+, x*?, x+?), optionally followed by \\b.  A quantified item is *forced*
when its set is disjoint from the first-character set of the rest of the branch (backtracking into it can never
succeed) -- except when the rest can be empty.  A branch may have at most ONE unforced quantified item, and everything
after that item must have fixed length; its preferred match is then the longest (greedy) or shortest (lazy) word of L
that is a prefix of the input [for a greedy star followed by a fixed-length tail, backtracking tries longer star runs
first and the tail length is constant, so the first success is the longest match; dually for lazy].  With no unforced
item the match is unique.
"""
from __future__ import annotations

from . import dfa
from .dfa import DFA


class Unsupported(Exception):
    pass


class Alphabet:
    """compressed alphabet: one symbol per equivalence class of code points w.r.t. all character sets in play,
    plus the marker as the LAST symbol"""

    def __init__(self, sets, reps, matrix, sizes):
        self.sets = sets              # list of set specs (JSON)
        self.reps = reps              # representative code point per class
        self.matrix = matrix          # matrix[class][set] -> bool
        self.sizes = sizes
        self.nsym = len(reps)
        self.k = self.nsym + 1
        self.mark = self.nsym
        self._index = {_key(s): i for i, s in enumerate(sets)}

    def symbols(self, spec):
        i = self._index[_key(spec)]
        return [c for c in range(self.nsym) if self.matrix[c][i]]

    def all(self):
        return list(range(self.nsym))

    def word(self, syms, mark="§"):
        return "".join(mark if a == self.mark else chr(self.reps[a]) for a in syms)

    def encode(self, text):
        """map a concrete text to symbols (by class signature of its characters); needs the class of each char"""
        raise NotImplementedError


def _key(spec):
    import json
    return json.dumps(spec, sort_keys=True)


def collect_sets(tree, out):
    for op, av in tree:
        if op in ("LITERAL", "NOT_LITERAL"):
            out.append([op, av])
        elif op == "ANY":
            out.append(["ANY"])
        elif op == "IN":
            out.append(["IN", av])
        elif op == "CATEGORY":
            out.append(["CATEGORY", av])
        elif op in ("MAX_REPEAT", "MIN_REPEAT"):
            collect_sets(av[2], out)
        elif op == "SUBPATTERN":
            collect_sets(av[3], out)
        elif op == "BRANCH":
            for b in av:
                collect_sets(b, out)
        elif op == "AT":
            pass
        elif op in ("ASSERT", "ASSERT_NOT"):
            collect_sets(av[1], out)
        else:
            pass      # unsupported constructs are reported per rule (Rule raises Unsupported), not here


WORD = ["CATEGORY", "CATEGORY_WORD"]


class Branch:
    def __init__(self, items, wb, ahead=None):
        self.items, self.wb = items, wb     # items: list of ("set", spec) | ("rep", spec, lo, greedy)
        self.ahead = ahead                  # trailing one-character lookahead: ("not", spec) | ("is", spec) | None


def flatten(tree):
    """strip capture groups; return list of branches (top-level alternation)"""
    # unwrap a single SUBPATTERN around everything
    while len(tree) == 1 and tree[0][0] == "SUBPATTERN":
        tree = tree[0][1][3]
    if len(tree) == 1 and tree[0][0] == "BRANCH":
        return [b for b in tree[0][1]]
    return [tree]


def to_branch(tree):
    items, wb, ahead = [], False, None
    for i, (op, av) in enumerate(tree):
        if wb or ahead is not None:
            raise Unsupported("\\b / lookahead not at the end of the pattern")
        if op in ("LITERAL", "NOT_LITERAL"):
            items.append(("set", [op, av]))
        elif op == "ANY":
            items.append(("set", ["ANY"]))
        elif op == "IN":
            items.append(("set", ["IN", av]))
        elif op == "CATEGORY":
            items.append(("set", ["CATEGORY", av]))
        elif op in ("MAX_REPEAT", "MIN_REPEAT"):
            lo, hi, sub = av
            if hi is not None or lo not in (0, 1) or len(sub) != 1 or sub[0][0] not in ("LITERAL", "ANY", "IN", "CATEGORY", "NOT_LITERAL"):
                raise Unsupported("quantifier {%s,%s} or quantified group" % (lo, hi))
            s = sub[0]
            spec = ["ANY"] if s[0] == "ANY" else [s[0], s[1]]
            items.append(("rep", spec, lo, op == "MAX_REPEAT"))
        elif op == "SUBPATTERN":
            inner = to_branch(av[3])
            if inner.wb or inner.ahead is not None:
                raise Unsupported("\\b / lookahead inside a group")
            items.extend(inner.items)
        elif op == "AT":
            if av != "AT_BOUNDARY":
                raise Unsupported("anchor %s" % av)
            wb = True
        elif op in ("ASSERT", "ASSERT_NOT"):
            direction, sub = av
            if direction != 1 or len(sub) != 1 or sub[0][0] not in ("LITERAL", "NOT_LITERAL", "ANY", "IN", "CATEGORY"):
                raise Unsupported("lookaround other than a one-character lookahead")
            s0 = sub[0]
            ahead = ("not" if op == "ASSERT_NOT" else "is", ["ANY"] if s0[0] == "ANY" else [s0[0], s0[1]])
        else:
            raise Unsupported("regex construct %s" % op)
    return Branch(items, wb, ahead)


class Rule:
    """one alternative of the master regex"""

    def __init__(self, name, pattern, tree, alpha: Alphabet):
        self.name, self.pattern = name, pattern
        self.alpha = alpha
        self.branches = [to_branch(b) for b in flatten(tree)]
        k = alpha.k
        self.modes = []
        firsts = []
        for br in self.branches:
            self.modes.append(self.classify(br))
            firsts.append(set(self.first(br.items)))
        for i in range(len(firsts)):
            for j in range(i + 1, len(firsts)):
                if firsts[i] & firsts[j]:
                    raise Unsupported("alternation branches of %s share a first character" % name)
        self.firsts = firsts

    # ---- languages
    def setdfa(self, spec):
        return DFA.sym(self.alpha.k, self.alpha.symbols(spec))

    def item_lang(self, it):
        d = self.setdfa(it[1])
        if it[0] == "set":
            return d
        return dfa.star(d) if it[2] == 0 else dfa.plus(d)

    def branch_lang(self, br):
        parts = [self.item_lang(it) for it in br.items]
        return dfa.cat(*parts) if len(parts) > 1 else parts[0]

    def first(self, items):
        """set of symbols that can begin a word of the concatenation; None is added if it can be empty"""
        out = set()
        for it in items:
            out |= set(self.alpha.symbols(it[1]))
            if not (it[0] == "rep" and it[2] == 0):
                return out
        out.add(None)
        return out

    def classify(self, br):
        free = []
        for i, it in enumerate(br.items):
            if it[0] != "rep":
                continue
            rest = br.items[i + 1:]
            f = self.first(rest)
            mine = set(self.alpha.symbols(it[1]))
            forced = not (mine & {x for x in f if x is not None}) and None not in f
            if rest and None in f:
                # the rest may be empty: the item may stop anywhere unless what follows is disjoint AND must come
                forced = False
            if not rest:
                forced = False
            if not forced:
                free.append(i)
        if not free:
            return "unique"
        if len(free) > 1:
            raise Unsupported("more than one backtracking choice point in %r" % self.pattern)
        i = free[0]
        if any(it[0] == "rep" for it in br.items[i + 1:]):
            raise Unsupported("variable-length tail after the choice point in %r" % self.pattern)
        return "longest" if br.items[i][3] else "shortest"

    # K: what may follow the match (plain language over text symbols)
    def follow(self, br):
        a = self.alpha
        allw = DFA.all_words(a.k, a.all())
        if br.ahead is not None:
            kind, spec = br.ahead
            inset = set(a.symbols(spec))
            if kind == "not":      # (?!x): end of text, or a next character outside the set
                return DFA.eps(a.k) | dfa.cat(DFA.sym(a.k, [c for c in a.all() if c not in inset]), allw)
            return dfa.cat(DFA.sym(a.k, sorted(inset)), allw)
        if not br.wb:
            return allw
        # \b after the match: the last matched character is a word character iff the next one is not (or end).
        last = br.items[-1]
        lastset = set(a.symbols(last[1]))
        words = set(a.symbols(WORD))
        if lastset <= words:
            nonword = [c for c in a.all() if c not in words]
            return DFA.eps(a.k) | dfa.cat(DFA.sym(a.k, nonword), allw)
        if not (lastset & words):
            return dfa.cat(DFA.sym(a.k, sorted(words)), allw)
        raise Unsupported("\\b after a set mixing word and non-word characters")
