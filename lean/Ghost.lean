/-
Ghost lemmas (E3) cited by name in the z3 obligations of contracts/binning.py.  Code-independent facts about the
spec functions that need induction, which the SMT solvers will not do.
-/
import Mathlib.Data.List.Chain
import Mathlib.Algebra.Order.Archimedean.Real.Basic
import Mathlib.Algebra.Order.Floor.Ring
import Mathlib.Tactic.Linarith
import Mathlib.Tactic.Ring
import Mathlib.Tactic.NormNum

/-- (i) adjacent-sorted ⇒ pairwise sorted: connects `accumulate` of non-negative weights (each step c[i] ≤ c[i+1])
    to the pairwise hypothesis used by lemma:choice/interval-index-unique and …/monotone-in-prefix-shares. -/
theorem adj_sorted_pairwise (l : List ℝ) (h : l.IsChain (· ≤ ·)) : l.Pairwise (· ≤ ·) :=
  List.isChain_iff_pairwise.mp h

/-- running totals (left fold with +), as `itertools.accumulate` computes them -/
def acc : List ℝ → ℝ → List ℝ
  | [], _ => []
  | w :: ws, s => (s + w) :: acc ws (s + w)

/-- each running total is the previous one plus a non-negative weight ⇒ the totals are adjacent-sorted -/
theorem acc_chain (ws : List ℝ) (s : ℝ) (h : ∀ w ∈ ws, 0 ≤ w) : (s :: acc ws s).IsChain (· ≤ ·) := by
  induction ws generalizing s with
  | nil => simp [acc]
  | cons w ws ih =>
    simp only [acc]
    refine List.IsChain.cons_cons ?_ ?_
    · have := h w (by simp); linarith
    · exact ih (s + w) (fun x hx => h x (by simp [hx]))

/-- (ii) accumulate([1]*n)[i] = i+1  (C16: no weights ≡ equal weights) -/
theorem acc_ones (n : ℕ) (s : ℝ) : ∀ i, i < n → (acc (List.replicate n 1) s)[i]? = some (s + (i + 1 : ℕ)) := by
  induction n generalizing s with
  | zero => intro i hi; omega
  | succ n ih =>
    intro i hi
    cases i with
    | zero => simp [List.replicate_succ, acc]
    | succ j =>
      simp only [List.replicate_succ, acc, List.getElem?_cons_succ]
      rw [ih (s + 1) j (by omega)]
      congr 1
      push_cast
      ring

/-- (iii) the number of grid points k with a ≤ k < b is ⌈b⌉ - ⌈a⌉, within one of b - a  (C03: share within one grid point) -/
theorem grid_count (a b : ℝ) (_hab : a ≤ b) :
    |((⌈b⌉ - ⌈a⌉ : ℤ) : ℝ) - (b - a)| < 1 := by
  have h1 := Int.le_ceil a; have h2 := Int.ceil_lt_add_one a
  have h3 := Int.le_ceil b; have h4 := Int.ceil_lt_add_one b
  rw [abs_lt]; push_cast; constructor <;> linarith
