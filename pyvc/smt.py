"""pyvc -- E1, SMT domain: a symbolic executor over a stated subset of Python that turns a *real* function body
(read from /repo with `ast`) plus a sidecar contract into verification conditions for z3 / cvc5.

* every path of the body is enumerated under the contract's precondition (path condition `pc`);
* a call is replaced by the callee's CONTRACT (first-party) or ASSUMED contract (dependency) -- never its body;
* implicit safety obligations are emitted (index range, divisor != 0, log/sqrt domain, callee preconditions);
* exceptions are outcomes: a path ends in ('return', v) or ('raise', ExcName);
* every store is logged (frame / ownership obligations); sources of nondeterminism are logged as havoc.

Python semantics assumed by the encoding (listed in evidence): int = mathematical Int (exact); float = Real
(A-real); str = z3 String (sequence of code points, A-str); bytes = uninterpreted sort; objects = records in a
per-path heap; anything else = uninterpreted sort Val.  Syntax outside the subset raises OutOfSubset, which the
driver reports as an UNDECIDED `in-subset` obligation (never a pass, never a violation).
"""
from __future__ import annotations

import ast
import itertools

import z3

I, R, B, S = z3.IntSort(), z3.RealSort(), z3.BoolSort(), z3.StringSort()
Val = z3.DeclareSort("Val")
Bytes = z3.DeclareSort("Bytes")

# injections into Val (so uninterpreted externals can take any argument)
STR2VAL = z3.Function("str2val", S, Val)
INT2VAL = z3.Function("int2val", I, Val)
REAL2VAL = z3.Function("real2val", R, Val)
BOOL2VAL = z3.Function("bool2val", B, Val)
OBJ2VAL = z3.Function("obj2val", I, Val)
NONEVAL = z3.Const("NoneVal", Val)

_cnt = itertools.count()


def fresh(name, sort):
    return z3.Const("%s!%d" % (name, next(_cnt)), sort)


class OutOfSubset(Exception):
    pass


class PyNoneT:
    def __repr__(self):
        return "None"


NONE = PyNoneT()


class Raise:
    def __init__(self, exc, info=""):
        self.exc, self.info = exc, info

    def __repr__(self):
        return "Raise(%s)" % self.exc


class PyList:
    def __init__(self, arr, n, sort, origin="fresh", kind="list"):
        self.arr, self.n, self.sort, self.origin, self.kind = arr, n, sort, origin, kind


class PyTuple:
    def __init__(self, items):
        self.items = list(items)


class PyDict:
    """a dict allocated in the function (e.g. code_holder = {}): contents is one Val term"""
    def __init__(self, oid):
        self.oid = oid


class PyObj:
    def __init__(self, oid):
        self.oid = oid

    def __repr__(self):
        return "obj#%d" % self.oid


class QName:
    """a resolved global / imported / builtin callable or module"""
    def __init__(self, q):
        self.q = q

    def __repr__(self):
        return "<%s>" % self.q


class KwSplat:
    """**kwargs value: opaque mapping"""
    def __init__(self, term):
        self.term = term


class Path:
    def __init__(self):
        self.env, self.heap, self.pc, self.facts = {}, {}, [], []
        self.obls, self.effects, self.ghost, self.havoc = [], [], {}, []

    def fork(self):
        q = Path()
        q.env = dict(self.env)
        q.heap = {k: {"cls": v["cls"], "origin": v["origin"], "attrs": dict(v["attrs"])} for k, v in self.heap.items()}
        q.pc, q.facts, q.obls = list(self.pc), list(self.facts), list(self.obls)
        q.effects, q.ghost, q.havoc = list(self.effects), dict(self.ghost), list(self.havoc)
        return q

    def new_obj(self, cls, origin="fresh", attrs=None):
        oid = next(_cnt)
        self.heap[oid] = {"cls": cls, "origin": origin, "attrs": dict(attrs or {})}
        return PyObj(oid)


def to_val(v):
    """inject any executor value into sort Val"""
    if isinstance(v, PyNoneT):
        return NONEVAL
    if isinstance(v, PyObj):
        return OBJ2VAL(z3.IntVal(v.oid))
    if isinstance(v, PyDict):
        return OBJ2VAL(z3.IntVal(v.oid))
    if isinstance(v, KwSplat):
        return v.term
    if isinstance(v, QName):
        return z3.Const("global:" + v.q, Val)
    if isinstance(v, PyTuple):
        f = z3.Function("tuple%d" % len(v.items), *([Val] * len(v.items) + [Val]))
        return f(*[to_val(x) for x in v.items]) if v.items else z3.Const("tuple0", Val)
    if isinstance(v, PyList):
        f = z3.Function("list_%s" % v.sort, z3.ArraySort(I, v.sort), I, Val)
        return f(v.arr, v.n)
    if isinstance(v, bool):
        return BOOL2VAL(z3.BoolVal(v))
    if z3.is_expr(v):
        s = v.sort()
        if s == Val:
            return v
        if s == S:
            return STR2VAL(v)
        if s == I:
            return INT2VAL(v)
        if s == R:
            return REAL2VAL(v)
        if s == B:
            return BOOL2VAL(v)
        if s == Bytes:
            return z3.Function("bytes2val", Bytes, Val)(v)
    raise OutOfSubset("cannot inject %r into Val" % (v,))


def is_num(v):
    return z3.is_expr(v) and v.sort() in (I, R)


def coerce2(a, b):
    if a.sort() == b.sort():
        return a, b
    if a.sort() == I and b.sort() == R:
        return z3.ToReal(a), b
    if a.sort() == R and b.sort() == I:
        return a, z3.ToReal(b)
    raise OutOfSubset("operand sorts %s / %s" % (a.sort(), b.sort()))


# uninterpreted real functions + the axioms instantiated at use sites
LN = z3.Function("ln", R, R)
SQRT = z3.Function("sqrt", R, R)
PI = z3.Const("pi", R)
PI_FACTS = [PI > z3.RealVal("3.14159265358979"), PI < z3.RealVal("3.14159265358980")]


class ModuleInfo:
    """names visible in a repo module: imports resolved to qualified names, module-level defs, classes"""

    def __init__(self, modname, tree):
        self.modname, self.tree = modname, tree
        self.names = {}
        self.consts = {}     # module-level NAME = <expr> (evaluated in an empty local scope when read)
        for n in tree.body:
            if isinstance(n, ast.Import):
                for a in n.names:
                    self.names[(a.asname or a.name).split(".")[0]] = a.name if a.asname else a.name.split(".")[0]
            elif isinstance(n, ast.ImportFrom):
                for a in n.names:
                    self.names[a.asname or a.name] = "%s.%s" % (n.module, a.name)
            elif isinstance(n, (ast.FunctionDef, ast.ClassDef)):
                self.names[n.name] = "%s.%s" % (modname, n.name)
            elif isinstance(n, ast.Assign) and len(n.targets) == 1 and isinstance(n.targets[0], ast.Name):
                self.consts[n.targets[0].id] = n.value
            elif isinstance(n, ast.AnnAssign) and isinstance(n.target, ast.Name) and n.value is not None:
                self.consts[n.target.id] = n.value
        self.rebound_globals = {name for n in ast.walk(tree) if isinstance(n, ast.Global) for name in n.names}

    def func(self, qual):
        """return the ast.FunctionDef for 'f' or 'Class.f'"""
        parts = qual.split(".")
        body = self.tree.body
        node = None
        for part in parts:
            node = None
            for n in body:
                if isinstance(n, (ast.FunctionDef, ast.ClassDef)) and n.name == part:
                    node = n   # last definition wins, as in Python
            if node is None:
                return None
            body = node.body
        return node if isinstance(node, ast.FunctionDef) else None


BUILTINS = {"len", "int", "float", "str", "list", "abs", "print", "setattr", "getattr", "exec", "compile", "super",
            "sorted", "isinstance", "type", "repr", "bool", "min", "max", "sum", "range", "dict", "set", "tuple",
            "hash", "id", "open", "hasattr", "next", "iter", "filter", "frozenset", "divmod", "pow", "ord", "chr", "format", "bytes", "bytearray", "complex", "bin", "hex", "oct", "ascii", "callable", "slice", "issubclass", "globals", "locals", "vars", "input", "eval", "map", "round", "any", "all", "enumerate", "zip", "reversed",
            "NotImplementedError", "ValueError", "TypeError", "RuntimeError", "KeyError", "IndexError", "Exception"}


class Exec:
    """symbolic executor for one function body"""

    def __init__(self, modinfo, registry, tier="quick"):
        self.mod, self.reg, self.tier = modinfo, registry, tier
        self.outcomes = []
        self.npaths = 0

    # ---------------------------------------------------------------- solver helpers
    def feasible(self, p, extra=()):
        s = z3.Solver()
        s.set("timeout", 5000)
        s.add(*p.pc, *p.facts, *extra)
        return s.check() != z3.unsat    # unknown => keep the path (sound for proving)

    def split(self, p, cond):
        """fork on a Bool z3 condition -> [(path_true|None), (path_false|None)]"""
        cond = z3.simplify(cond)
        if z3.is_true(cond):
            return p, None
        if z3.is_false(cond):
            return None, p
        pt, pf = p.fork(), p.fork()
        pt.pc.append(cond)
        pf.pc.append(z3.Not(cond))
        return (pt if self.feasible(pt) else None), (pf if self.feasible(pf) else None)

    # ---------------------------------------------------------------- driver
    def run(self, fn, path):
        self.outcomes = []
        self.block(list(fn.body), path)
        self.npaths = len(self.outcomes)
        return self.outcomes

    def finish(self, p, kind, v):
        self.outcomes.append((p, kind, v))

    def block(self, stmts, p):
        if not stmts:
            return self.finish(p, "return", NONE)
        st, rest = stmts[0], stmts[1:]
        m = getattr(self, "st_" + type(st).__name__, None)
        if m is None:
            raise OutOfSubset("statement %s at line %d" % (type(st).__name__, st.lineno))
        return m(st, rest, p)

    def each(self, e, p, k):
        """evaluate e; route Raise outcomes to finish; call k(path, value) for normal values"""
        for p2, v in self.expr(e, p):
            if isinstance(v, Raise):
                self.finish(p2, "raise", v)
            else:
                k(p2, v)

    def st_Expr(self, st, rest, p):
        if isinstance(st.value, ast.Constant):
            return self.block(rest, p)   # docstring
        self.each(st.value, p, lambda p2, v: self.block(rest, p2))

    def st_Pass(self, st, rest, p):
        self.block(rest, p)

    def st_Assign(self, st, rest, p):
        def assign_all(p2, v):
            # a = b = value: the value is evaluated once and stored left to right
            def chain(i, p3):
                if i == len(st.targets):
                    return self.block(rest, p3)
                self.store(st.targets[i], v, p3, lambda p4: chain(i + 1, p4))
            chain(0, p2)
        self.each(st.value, p, assign_all)

    def st_Continue(self, st, rest, p):
        self.finish(p, "continue", NONE)

    def st_Break(self, st, rest, p):
        self.finish(p, "break", NONE)

    def st_Nonlocal(self, st, rest, p):
        # the enclosing function's locals live in the same env when a closure body is executed in place
        self.block(rest, p)

    def st_AnnAssign(self, st, rest, p):
        if st.value is None:
            return self.block(rest, p)
        self.each(st.value, p, lambda p2, v: self.store(st.target, v, p2, lambda p3: self.block(rest, p3)))

    def st_AugAssign(self, st, rest, p):
        load = ast.copy_location(ast.BinOp(left=_as_load(st.target), op=st.op, right=st.value), st)
        self.each(load, p, lambda p2, v: self.store(st.target, v, p2, lambda p3: self.block(rest, p3)))

    def store(self, tgt, v, p, k):
        if isinstance(tgt, ast.Name):
            if tgt.id in p.ghost.get("global_names", ()):
                p.effects.append(("store-global", self.mod.modname + "." + tgt.id, v, tgt.lineno))
                p.ghost.setdefault("global_values", {})[tgt.id] = v
                return k(p)
            p.env[tgt.id] = v
            return k(p)
        if isinstance(tgt, ast.Attribute):
            def go(p2, base):
                if isinstance(base, QName):
                    # store to a class / module attribute: shared state
                    p2.effects.append(("store-global", base.q + "." + tgt.attr, v, tgt.lineno))
                    return k(p2)
                if z3.is_expr(base) and base.sort() == Val:
                    # a store into an opaque object (an attribute of self, a module-level object, ...): state that outlives
                    # the call and that is not one of the instance attributes a frame clause can name -- a foreign store
                    p2.effects.append(("store-attr", -1, tgt.attr, v, "opaque:" + str(base)[:80]))
                    return k(p2)
                if not isinstance(base, PyObj):
                    raise OutOfSubset("attribute store on non-object line %d" % tgt.lineno)
                p2.heap[base.oid]["attrs"][tgt.attr] = v
                p2.effects.append(("store-attr", base.oid, tgt.attr, v, p2.heap[base.oid]["origin"]))
                k(p2)
            return self.each(tgt.value, p, go)
        if isinstance(tgt, ast.Tuple) and isinstance(v, PyTuple) and len(v.items) == len(tgt.elts):
            def chain(i, p2):
                if i == len(tgt.elts):
                    return k(p2)
                self.store(tgt.elts[i], v.items[i], p2, lambda p3: chain(i + 1, p3))
            return chain(0, p)
        if isinstance(tgt, ast.Subscript) and isinstance(tgt.value, ast.Name) and not isinstance(tgt.slice, ast.Slice) and isinstance(p.env.get(tgt.value.id), PyList):
            # x[i] = v on a list VALUE held by a local: the local is rebound to the updated value; a list that came from
            # the caller is thereby modified in place (effect `mutate-list`); a tuple raises TypeError
            name = tgt.value.id

            def go_ix(p2, ix):
                lst = p2.env[name]
                if lst.kind == "tuple":
                    return self.finish(p2, "raise", Raise("TypeError", "item assignment on a tuple (line %d)" % tgt.lineno))
                if not (z3.is_expr(ix) and ix.sort() == I):
                    raise OutOfSubset("list index sort (line %d)" % tgt.lineno)
                ix2 = z3.If(ix < 0, ix + lst.n, ix)
                pok, pbad = self.split(p2, z3.And(ix2 >= 0, ix2 < lst.n))
                if pbad is not None:
                    self.finish(pbad, "raise", Raise("IndexError", "line %d" % tgt.lineno))
                if pok is not None:
                    l2 = pok.env[name]
                    val = v
                    if z3.is_expr(val) and is_num(val) and val.sort() != l2.sort and l2.sort in (I, R):
                        val = z3.ToReal(val) if l2.sort == R else val
                    if not (z3.is_expr(val) and val.sort() == l2.sort):
                        raise OutOfSubset("list element sort (line %d)" % tgt.lineno)
                    pok.env[name] = PyList(z3.Store(l2.arr, z3.simplify(ix2), val), l2.n, l2.sort, origin=l2.origin, kind=l2.kind)
                    if l2.origin != "fresh":
                        pok.effects.append(("mutate-list", l2.origin, tgt.lineno))
                    k(pok)
            return self.each(tgt.slice, p, go_ix)
        raise OutOfSubset("assignment target %s line %d" % (type(tgt).__name__, tgt.lineno))

    def st_Global(self, st, rest, p):
        # rebinding a module-level name at run time: state shared by every caller (and every thread)
        p.ghost.setdefault("global_names", set()).update(st.names)
        self.block(rest, p)

    def st_Return(self, st, rest, p):
        if st.value is None:
            return self.finish(p, "return", NONE)
        self.each(st.value, p, lambda p2, v: self.finish(p2, "return", v))

    def st_Raise(self, st, rest, p):
        if st.exc is None:
            cur = p.ghost.get("current_exception")
            if cur is None:
                raise OutOfSubset("bare raise outside an except block")
            return self.finish(p, "raise", cur)
        e = st.exc
        if isinstance(e, ast.Call):
            name = ast.unparse(e.func)
            # evaluate the arguments (they may raise themselves, e.g. f-strings of symbolic values are total)
            def done(p2, _):
                self.finish(p2, "raise", Raise(name.split(".")[-1], "line %d" % st.lineno))
            return self.eval_args_only(e, p, done)
        self.finish(p, "raise", Raise(ast.unparse(e).split(".")[-1], "line %d" % st.lineno))

    def eval_args_only(self, call, p, k):
        def chain(i, p2):
            if i == len(call.args):
                return k(p2, None)
            self.each(call.args[i], p2, lambda p3, v: chain(i + 1, p3))
        chain(0, p)

    def st_If(self, st, rest, p):
        def go(p2, c):
            pt, pf = self.split(p2, self.truth(c, p2))
            if pt is not None:
                self.block(list(st.body) + rest, pt)
            if pf is not None:
                self.block(list(st.orelse) + rest, pf)
        self.each(st.test, p, go)

    def st_Assert(self, st, rest, p):
        def go(p2, c):
            pt, pf = self.split(p2, self.truth(c, p2))
            if pf is not None:
                self.finish(pf, "raise", Raise("AssertionError", "line %d" % st.lineno))
            if pt is not None:
                self.block(rest, pt)
        self.each(st.test, p, go)

    def st_Try(self, st, rest, p):
        """try/except (no finally): an exception of the body is routed to the first handler whose class matches; when
        the match cannot be decided (a synthetic 'any exception of callee X' against a specific class) BOTH outcomes
        are explored"""
        if st.finalbody:
            raise OutOfSubset("try/finally (line %d)" % st.lineno)
        sub = type(self)(self.mod, self.reg, self.tier)
        sub._depth = getattr(self, "_depth", 0)
        outs = sub.run_block(list(st.body), p)
        for (p2, kind, v) in outs:
            if kind == "fallthrough":
                self.block(list(st.orelse) + rest, p2)
            elif kind == "return":
                self.finish(p2, "return", v)
            elif kind == "raise":
                self.route_exception(st, rest, p2, v)
            elif kind in ("continue", "break"):
                self.finish(p2, kind, v)       # leaves the try statement (no finally here) towards the enclosing loop
            else:
                raise OutOfSubset("loop inside try")

    SYNTHETIC = ("TokenStreamRaised", "UserFunctionRaised", "ActionRaised", "ParserException", "GeneratorException", "CompileException", "ExecException", "BlackException", "Propagated", "RecompileFailed", "Exception")

    def route_exception(self, st, rest, p, exc):
        for h in st.handlers:
            if h.type is None:
                names = ["BaseException"]
            elif isinstance(h.type, ast.Tuple):
                names = [ast.unparse(x).split(".")[-1] for x in h.type.elts]
            else:
                names = [ast.unparse(h.type).split(".")[-1]]
            if "BaseException" in names or "Exception" in names or exc.exc in names:
                decided = True
            elif exc.exc in self.SYNTHETIC:
                decided = None       # an unknown concrete class: may or may not match
            else:
                decided = False
            if decided is False:
                continue
            pm = p if decided else p.fork()
            if h.name:
                pm.env[h.name] = fresh("caught_" + exc.exc, Val)
            pm.ghost["current_exception"] = exc
            self.block(list(h.body) + rest, pm)
            if decided:
                return
        self.finish(p, "raise", exc)

    def st_While(self, st, rest, p):
        """while with a sidecar invariant (registry.loop_invariant(lineno) -> callable(path)->(inv, havoc_names))"""
        spec = self.reg.loop_spec(self.mod.modname, st.lineno, st)
        if spec is None:
            raise OutOfSubset("while loop without invariant (line %d)" % st.lineno)
        inv_fn, modified, variant_fn = spec
        # 1. invariant holds on entry
        p.obls.append(("loop@%d.inv-entry" % st.lineno, inv_fn(p), st.lineno, list(p.pc), list(p.facts)))
        # 2. arbitrary iteration: havoc modified vars, assume inv
        ph = p.fork()
        for name in modified:
            old = ph.env[name]
            ph.env[name] = fresh(name, old.sort())
        ph.facts.append(inv_fn(ph))

        def after_test(p2, c):
            cond = self.truth(c, p2)
            pt, pf = self.split(p2, cond)
            if pt is not None:
                v0 = variant_fn(pt) if variant_fn else None
                sub = type(self)(self.mod, self.reg, self.tier)
                sub.finish_loop = True
                outs = sub.run_block(list(st.body), pt)
                for (pb, kind, v) in outs:
                    if kind == "break":
                        self.block(rest, pb)        # (an else: clause of the loop is skipped on break)
                        continue
                    if kind in ("fallthrough", "continue"):
                        pb.obls.append(("loop@%d.inv-preserved" % st.lineno, inv_fn(pb), st.lineno, list(pb.pc), list(pb.facts)))
                        if v0 is not None:
                            v1 = variant_fn(pb)
                            pb.obls.append(("loop@%d.variant-decreases" % st.lineno, z3.And(v1 < v0, v0 >= 0), st.lineno, list(pb.pc), list(pb.facts)))
                        # obligations of this iteration must be kept: finish as a pseudo outcome
                        self.finish(pb, "loop-iteration", NONE)
                    else:
                        self.finish(pb, kind, v)
            if pf is not None:
                self.block(list(st.orelse) + rest, pf)
        self.each(st.test, ph, after_test)

    def run_block(self, stmts, p):
        self.outcomes = []
        self._block_ft(stmts, p)
        return self.outcomes

    def _block_ft(self, stmts, p):
        # like block(), but falling off the end is 'fallthrough' rather than return None
        if not stmts:
            return self.finish(p, "fallthrough", NONE)
        st, rest = stmts[0], stmts[1:]
        saved = self.block

        def blk(s2, p2):
            return self._block_ft(s2, p2)
        self.block = blk
        try:
            m = getattr(self, "st_" + type(st).__name__, None)
            if m is None:
                raise OutOfSubset("statement %s at line %d" % (type(st).__name__, st.lineno))
            m(st, rest, p)
        finally:
            self.block = saved

    # ---------------------------------------------------------------- expressions
    def truth(self, v, p):
        if isinstance(v, bool):
            return z3.BoolVal(v)
        if isinstance(v, PyNoneT):
            return z3.BoolVal(False)
        if isinstance(v, PyList):
            return v.n != 0
        if isinstance(v, (PyObj, QName)):
            return z3.BoolVal(True)
        if isinstance(v, PyTuple):
            return z3.BoolVal(len(v.items) > 0)
        if z3.is_expr(v):
            s = v.sort()
            if s == B:
                return v
            if s == I:
                return v != 0
            if s == R:
                return v != 0
            if s == S:
                return z3.Length(v) != 0
            if s == Val:
                return z3.Function("truthy", Val, B)(v)
        raise OutOfSubset("truth value of %r" % (v,))

    def expr(self, e, p):
        m = getattr(self, "ex_" + type(e).__name__, None)
        if m is None:
            raise OutOfSubset("expression %s at line %d" % (type(e).__name__, getattr(e, "lineno", 0)))
        return m(e, p)

    def seq(self, exprs, p):
        """evaluate a list of expressions left to right -> [(path, [values]|Raise)]"""
        outs = [(p, [])]
        for e in exprs:
            nxt = []
            for p1, vs in outs:
                if isinstance(vs, Raise):
                    nxt.append((p1, vs))
                    continue
                for p2, v in self.expr(e, p1):
                    nxt.append((p2, v if isinstance(v, Raise) else vs + [v]))
            outs = nxt
        return outs

    def ex_Constant(self, e, p):
        v = e.value
        if v is None:
            return [(p, NONE)]
        if isinstance(v, bool):
            return [(p, z3.BoolVal(v))]
        if isinstance(v, int):
            return [(p, z3.IntVal(v))]
        if isinstance(v, float):
            return [(p, z3.RealVal(repr(v)) if v == v and abs(v) != float("inf") else _oos("non-finite literal"))]
        if isinstance(v, str):
            return [(p, z3.StringVal(v))]
        raise OutOfSubset("constant %r" % (v,))

    def ex_Name(self, e, p):
        if e.id in p.env:
            return [(p, p.env[e.id])]
        if e.id in self.mod.names:
            q = self.mod.names[e.id]
            if q == "math.pi":
                p.facts.extend(f for f in PI_FACTS if not any(f.eq(g) for g in p.facts))
                return [(p, PI)]
            return [(p, QName(q))]
        if e.id in self.mod.consts and e.id in self.mod.rebound_globals:
            # some function of this module rebinds the name with `global`: its value at this point depends on the calls
            # made so far, by anyone (shared mutable state)
            p.effects.append(("global-mutable-read", e.id, e.lineno))
            p.havoc.append(("module-level variable %s (rebound at run time with `global`)" % e.id, e.lineno))
            gv = p.ghost.get("global_values", {}).get(e.id)
            return [(p, gv if gv is not None else fresh("havoc_global_" + e.id, Val))]
        if e.id in self.mod.consts:
            # a module-level binding: immutable constants only (a mutable module-level object is shared state)
            c = self.mod.consts[e.id]
            if isinstance(c, ast.Call):
                # an object constructed once at import time: a SHARED (global) object
                key = "global:" + e.id
                if key in p.ghost:
                    return [(p, p.ghost[key])]
                saved = p.env
                p.env = {}
                try:
                    outs = self.expr(c, p)
                finally:
                    p.env = saved
                res = []
                for p2, v in outs:
                    p2.env = dict(saved)
                    if isinstance(v, PyObj):
                        p2.heap[v.oid]["origin"] = key
                        p2.ghost[key] = v
                        p2.effects.append(("global-object-read", e.id, e.lineno))
                    elif z3.is_expr(v) and v.sort() == Val:
                        # an object built once at import time by an unmodelled library call: shared by every call; whether
                        # it is mutable is decided by its constructor (IMMUTABLE_CTORS) when a method is called on it
                        ctor = ast.unparse(c.func)
                        ctor = self.mod.names.get(ctor.split(".")[0], ctor.split(".")[0]) + ctor[len(ctor.split(".")[0]):]
                        p2.ghost.setdefault("opaque_globals", {})[v.sexpr()] = (e.id, ctor)
                        p2.ghost[key] = v
                        if ctor != "logging.getLogger":          # assumed contract A-log (pyvc/registry.py): a logger is not state the program reads
                            p2.effects.append(("global-opaque-read", e.id, ctor, e.lineno))
                    elif not isinstance(v, Raise):
                        raise OutOfSubset("module-level call result %s (line %d)" % (e.id, e.lineno))
                    res.append((p2, v))
                return res
            if isinstance(c, (ast.Dict, ast.List, ast.Set, ast.ListComp, ast.DictComp, ast.SetComp)):
                p.effects.append(("global-mutable-read", e.id, e.lineno))
                raise OutOfSubset("read of mutable module-level object %s (line %d)" % (e.id, e.lineno))
            saved = p.env
            p.env = {}
            try:
                outs = self.expr(c, p)
            finally:
                p.env = saved
            for p2, _ in outs:
                p2.env = dict(saved)
            return outs
        if e.id in BUILTINS:
            return [(p, QName("builtins." + e.id))]
        if e.id in ("__name__", "__qualname__", "__file__", "__package__", "__doc__"):
            return [(p, z3.StringVal("<%s of %s>" % (e.id, getattr(self.mod, "name", "module"))))]
        raise OutOfSubset("unresolved name %s line %d" % (e.id, e.lineno))

    def ex_Attribute(self, e, p):
        out = []
        for p1, base in self.expr(e.value, p):
            if isinstance(base, Raise):
                out.append((p1, base))
            elif isinstance(base, QName):
                q = base.q + "." + e.attr
                if q == "math.pi":
                    p1.facts.extend(f for f in PI_FACTS if not any(f.eq(g) for g in p1.facts))
                    out.append((p1, PI))
                else:
                    out.append((p1, QName(q)))
            elif isinstance(base, PyObj):
                out.append((p1, self.load_attr(p1, base, e.attr)))
            elif isinstance(base, PyNoneT):
                out.append((p1, Raise("AttributeError", "None.%s (line %d)" % (e.attr, e.lineno))))
            elif z3.is_expr(base) and base.sort() == Val:
                out.append((p1, z3.Function("attr:" + e.attr, Val, Val)(base)))
            else:
                out.append((p1, ("boundmethod", base, e.attr)))
        return out

    def load_attr(self, p, obj, attr):
        h = p.heap[obj.oid]
        if attr in h["attrs"]:
            return h["attrs"][attr]
        # method or class attribute
        if self.reg.lookup_method(h["cls"], attr) is not None:
            return ("boundmethod", obj, attr)
        if self.class_method(h["cls"], attr) is not None:
            return ("boundmethod", obj, attr)
        m = self.reg.class_attr(h["cls"], attr)
        if m is not None:
            kind, val = m
            if kind == "method":
                return ("boundmethod", obj, attr)
            return val
        sort = self.reg.attr_sort(h["cls"], attr)
        v = fresh("%s.%s" % (h["cls"].split(".")[-1], attr), sort)
        h["attrs"][attr] = v
        return v

    def class_method(self, cls, attr):
        """FunctionDef of a method of a first-party class defined in THIS module (for inlining contractless helpers)"""
        mod = self.mod.modname
        if not cls.startswith(mod + "."):
            return None
        return self.mod.func(cls[len(mod) + 1:] + "." + attr)

    def ex_JoinedStr(self, e, p):
        parts = [v.value if isinstance(v, ast.FormattedValue) else v for v in e.values]
        out = []
        for p1, vs in self.seq(parts, p):
            if isinstance(vs, Raise):
                out.append((p1, vs))
                continue
            pieces = []
            for v in vs:
                if z3.is_expr(v) and v.sort() == S:
                    pieces.append(v)
                else:
                    pieces.append(z3.Function("format", Val, S)(to_val(v)))
            out.append((p1, pieces[0] if len(pieces) == 1 else z3.Concat(*pieces) if pieces else z3.StringVal("")))
        return out

    def ex_Tuple(self, e, p):
        return [(p1, vs if isinstance(vs, Raise) else PyTuple(vs)) for p1, vs in self.seq(e.elts, p)]

    def ex_Dict(self, e, p):
        if any(k is None for k in e.keys):
            raise OutOfSubset("dict display with ** unpacking")
        out = []
        for p1, vs in self.seq(list(e.keys) + list(e.values), p):
            if isinstance(vs, Raise):
                out.append((p1, vs))
                continue
            n = len(e.keys)
            cont = z3.Const("emptydict", Val)
            put = z3.Function("dict_with", Val, Val, Val, Val)        # contents after d[k] = v (uninterpreted, in display order)
            for k, v in zip(vs[:n], vs[n:]):
                cont = put(cont, to_val(k), to_val(v))
            oid = next(_cnt)
            p1.heap[oid] = {"cls": "builtins.dict", "origin": "fresh", "attrs": {"contents": cont}}
            out.append((p1, PyDict(oid)))
        return out

    def _comprehension(self, e, p):
        """a comprehension the executor does not unfold: an UNINTERPRETED function (named after its source text) of the values of
        its free variables -- some deterministic value about which nothing else is known.  Calls inside it must resolve to pure
        builtins / str methods; anything else (first-party calls, environment-dependent modules) stays out of subset."""
        bound = set()
        for g in e.generators:
            for n in ast.walk(g.target):
                if isinstance(n, ast.Name):
                    bound.add(n.id)
        for n in ast.walk(e):
            if isinstance(n, ast.Call):
                f = n.func
                if isinstance(f, ast.Name) and f.id not in BUILTINS and f.id not in bound:
                    raise OutOfSubset("call of %s inside a comprehension (line %d)" % (f.id, e.lineno))
                if isinstance(f, ast.Name) and f.id in ("print", "exec", "eval", "open", "input", "setattr", "id", "hash", "globals", "locals", "vars"):
                    raise OutOfSubset("impure builtin inside a comprehension (line %d)" % e.lineno)
            if isinstance(n, (ast.Yield, ast.YieldFrom, ast.Await, ast.NamedExpr, ast.Lambda)):
                raise OutOfSubset("comprehension with %s (line %d)" % (type(n).__name__, e.lineno))
        free = sorted({n.id for n in ast.walk(e) if isinstance(n, ast.Name) and isinstance(n.ctx, ast.Load) and n.id not in bound and n.id not in BUILTINS})
        args = []
        for name in free:
            outs = self.ex_Name(ast.copy_location(ast.Name(id=name, ctx=ast.Load()), e), p)
            if len(outs) != 1 or isinstance(outs[0][1], Raise):
                raise OutOfSubset("free variable %s of a comprehension (line %d)" % (name, e.lineno))
            args.append(to_val(outs[0][1]))
        f = z3.Function("comp:" + " ".join(ast.unparse(e).split())[:200], *([Val] * len(args) + [Val]))
        return [(p, f(*args) if args else z3.Const("comp:" + ast.unparse(e)[:200], Val))]

    ex_DictComp = ex_ListComp = ex_SetComp = ex_GeneratorExp = _comprehension

    def ex_IfExp(self, e, p):
        out = []
        for p1, c in self.expr(e.test, p):
            if isinstance(c, Raise):
                out.append((p1, c))
                continue
            pt, pf = self.split(p1, self.truth(c, p1))
            if pt is not None:
                out.extend(self.expr(e.body, pt))
            if pf is not None:
                out.extend(self.expr(e.orelse, pf))
        return out

    def ex_BoolOp(self, e, p):
        """short-circuit `and` / `or` with Python's VALUE semantics: `a or b` is a when a is truthy, else b (so
        `int(x) or 1` is a number, not a flag); a condition built from comparisons stays a z3 Bool"""
        is_and = isinstance(e.op, ast.And)
        outs = []

        def go(i, p1):
            last = i == len(e.values) - 1
            for p2, v in self.expr(e.values[i], p1):
                if isinstance(v, Raise) or last:
                    outs.append((p2, v))
                    continue
                pt, pf = self.split(p2, self.truth(v, p2))
                decided_here, goes_on = (pf, pt) if is_and else (pt, pf)
                if decided_here is not None:
                    outs.append((decided_here, v))       # the operand itself is the value of the whole expression
                if goes_on is not None:
                    go(i + 1, goes_on)
        go(0, p)
        # Bool-sorted operands: keep the historical encoding (constants instead of the operand term) so that path conditions,
        # not result terms, carry the information -- equivalent, and cheaper for the solver
        res = []
        for p2, v in outs:
            if z3.is_expr(v) and v.sort() == B and not isinstance(v, Raise):
                res.append((p2, v))
            else:
                res.append((p2, v))
        return res

    def ex_UnaryOp(self, e, p):
        out = []
        for p1, v in self.expr(e.operand, p):
            if isinstance(v, Raise):
                out.append((p1, v))
            elif isinstance(e.op, ast.Not):
                out.append((p1, z3.Not(self.truth(v, p1))))
            elif isinstance(e.op, ast.USub) and is_num(v):
                out.append((p1, -v))
            elif isinstance(e.op, ast.UAdd) and is_num(v):
                out.append((p1, v))
            else:
                raise OutOfSubset("unary %s" % type(e.op).__name__)
        return out

    def ex_Compare(self, e, p):
        operands = [e.left] + list(e.comparators)
        out = []
        for p1, vs in self.seq(operands, p):
            if isinstance(vs, Raise):
                out.append((p1, vs))
                continue
            conj = []
            for op, a, b in zip(e.ops, vs, vs[1:]):
                conj.append(self.compare(op, a, b, p1))
            out.append((p1, conj[0] if len(conj) == 1 else z3.And(*conj)))
        return out

    def compare(self, op, a, b, p):
        if isinstance(op, (ast.Is, ast.IsNot)):
            an, bn = isinstance(a, PyNoneT), isinstance(b, PyNoneT)
            if an or bn:
                if z3.is_expr(a) and a.sort() == Val:
                    r = a == NONEVAL
                elif z3.is_expr(b) and b.sort() == Val:
                    r = b == NONEVAL
                else:
                    r = z3.BoolVal(an and bn)
                return r if isinstance(op, ast.Is) else z3.Not(r)
            raise OutOfSubset("`is` on non-None operands")
        if isinstance(op, (ast.In, ast.NotIn)):
            if isinstance(b, PyTuple):
                r = z3.Or(*[self.compare(ast.Eq(), a, x, p) for x in b.items]) if b.items else z3.BoolVal(False)
            elif z3.is_expr(a) and z3.is_expr(b) and a.sort() == S and b.sort() == S:
                r = z3.Contains(b, a)      # substring test
            elif z3.is_expr(b) and b.sort() == Val:
                r = z3.Function("dict_has", Val, Val, B)(b, to_val(a))     # membership in an opaque container
            else:
                raise OutOfSubset("`in` on %r" % (b,))
            return r if isinstance(op, ast.In) else z3.Not(r)
        if isinstance(a, PyNoneT) or isinstance(b, PyNoneT):
            if isinstance(op, (ast.Eq, ast.NotEq)):
                r = z3.BoolVal(isinstance(a, PyNoneT) and isinstance(b, PyNoneT))
                return r if isinstance(op, ast.Eq) else z3.Not(r)
            raise OutOfSubset("ordering comparison with None")
        for x, y in ((a, b), (b, a)):
            if isinstance(x, QName) and x.q in ("math.inf", "math.nan") and z3.is_expr(y) and is_num(y):
                # A-real keeps floats as reals + an uninterpreted finiteness flag: `v == inf` is a second flag that implies
                # non-finiteness (NaN is non-finite and equal to nothing); ordering against inf is decided by the flags too
                yr = z3.ToReal(y) if y.sort() == I else y
                fin = z3.Function("isfinite", R, B)(yr)
                posinf = z3.Function("is_posinf", R, B)(yr)
                p.facts.append(z3.Implies(posinf, z3.Not(fin)))
                if x.q == "math.nan":
                    return z3.BoolVal(isinstance(op, ast.NotEq))
                if isinstance(op, ast.Eq):
                    return posinf
                if isinstance(op, ast.NotEq):
                    return z3.Not(posinf)
                lt_inf = z3.Or(fin, z3.Function("is_neginf", R, B)(yr))       # y < inf
                if (isinstance(op, ast.Lt) and x is b) or (isinstance(op, ast.Gt) and x is a):
                    return lt_inf
                if (isinstance(op, ast.LtE) and x is b) or (isinstance(op, ast.GtE) and x is a):
                    return z3.Or(lt_inf, posinf)
                if (isinstance(op, ast.GtE) and x is b) or (isinstance(op, ast.LtE) and x is a):
                    return posinf
                return z3.BoolVal(False)      # y > inf
        if not (z3.is_expr(a) and z3.is_expr(b)):
            if isinstance(op, (ast.Eq, ast.NotEq)) and any(z3.is_expr(x) and x.sort() == Val for x in (a, b)):
                r = to_val(a) == to_val(b)       # an opaque value against a list / tuple / object: equality of the injections
                return r if isinstance(op, ast.Eq) else z3.Not(r)
            raise OutOfSubset("comparison of %r and %r" % (a, b))
        if type(op) in (ast.Lt, ast.LtE, ast.Gt, ast.GtE) and {str(a.sort()), str(b.sort())} in ({"Val", "Real"}, {"Val", "Int"}):
            # the result of an unmodelled library call compared with a number: read as the (unknown) number it must be
            v2r = z3.Function("val2real", Val, R)
            a = v2r(a) if a.sort() == Val else a
            b = v2r(b) if b.sort() == Val else b
        if is_num(a) and is_num(b):
            a, b = coerce2(a, b)
        elif a.sort() != b.sort():
            if isinstance(op, ast.Eq):
                return z3.BoolVal(False) if {a.sort(), b.sort()} <= {S, I, R, B} else to_val(a) == to_val(b)
            if isinstance(op, ast.NotEq):
                return z3.BoolVal(True) if {a.sort(), b.sort()} <= {S, I, R, B} else to_val(a) != to_val(b)
            raise OutOfSubset("comparison across sorts")
        table = {ast.Eq: lambda x, y: x == y, ast.NotEq: lambda x, y: x != y, ast.Lt: lambda x, y: x < y,
                 ast.LtE: lambda x, y: x <= y, ast.Gt: lambda x, y: x > y, ast.GtE: lambda x, y: x >= y}
        if type(op) not in table:
            raise OutOfSubset("comparison operator %s" % type(op).__name__)
        if a.sort() not in (I, R) and type(op) not in (ast.Eq, ast.NotEq):
            if a.sort() == S:
                return {ast.Lt: lambda x, y: x < y, ast.LtE: lambda x, y: x <= y,
                        ast.Gt: lambda x, y: y < x, ast.GtE: lambda x, y: y <= x}[type(op)](a, b)
            raise OutOfSubset("ordering on sort %s" % a.sort())
        return table[type(op)](a, b)

    def ex_BinOp(self, e, p):
        out = []
        for p1, vs in self.seq([e.left, e.right], p):
            if isinstance(vs, Raise):
                out.append((p1, vs))
                continue
            out.extend(self.binop(e, vs[0], vs[1], p1))
        return out

    def binop(self, e, a, b, p):
        op = e.op
        ln = e.lineno
        if z3.is_expr(a) and z3.is_expr(b) and a.sort() == S and b.sort() == S and isinstance(op, ast.Add):
            return [(p, z3.Concat(a, b))]
        if isinstance(op, ast.Add) and z3.is_expr(a) and z3.is_expr(b) and {str(a.sort()), str(b.sort())} == {"String", "Val"}:
            # str + <result of an unmodelled call>: the opaque value is read as the str it must be for `+` not to raise
            v2s = z3.Function("val2str", Val, S)
            return [(p, z3.Concat(a if a.sort() == S else v2s(a), b if b.sort() == S else v2s(b)))]
        if z3.is_expr(a) and a.sort() == S and isinstance(op, ast.Mod):
            # "fmt" % value  -> uninterpreted text.  Total when the operand is a scalar of known type or a tuple display (the
            # format's arity is then visible in the source); an operand of UNKNOWN type may be a tuple of the wrong length or a
            # mapping, and `%` raises TypeError for those -- a path of its own
            text = z3.Function("percent_format", S, Val, S)(a, to_val(b))
            if z3.is_expr(b) and b.sort() == Val:
                pr, pn = self.split(p, z3.Function("raises:percent_format", S, Val, B)(a, b))
                res = []
                if pr is not None:
                    res.append((pr, Raise("TypeError", "%-formatting of a value of unknown type (a tuple or mapping operand changes its meaning)")))
                if pn is not None:
                    res.append((pn, text))
                return res
            return [(p, text)]
        if z3.is_expr(a) and z3.is_expr(b) and isinstance(op, (ast.Add, ast.Sub, ast.Mult, ast.Div)) and {str(a.sort()), str(b.sort())} in ({"Val", "Real"}, {"Val", "Int"}):
            v2r = z3.Function("val2real", Val, R)
            a = v2r(a) if a.sort() == Val else a
            b = v2r(b) if b.sort() == Val else b
        if not (is_num(a) and is_num(b)):
            raise OutOfSubset("binary %s on %r, %r (line %d)" % (type(op).__name__, a, b, ln))
        if isinstance(op, ast.Add):
            a, b = coerce2(a, b)
            return [(p, a + b)]
        if isinstance(op, ast.Sub):
            a, b = coerce2(a, b)
            return [(p, a - b)]
        if isinstance(op, ast.Mult):
            a, b = coerce2(a, b)
            return [(p, a * b)]
        if isinstance(op, ast.Div):
            ar = z3.ToReal(a) if a.sort() == I else a
            br = z3.ToReal(b) if b.sort() == I else b
            pz, pnz = self.split(p, br == 0)
            res = []
            if pz is not None:
                res.append((pz, Raise("ZeroDivisionError", "line %d" % ln)))
            if pnz is not None:
                res.append((pnz, ar / br))
            return res
        if isinstance(op, ast.FloorDiv) and a.sort() == I and b.sort() == I:
            pz, pnz = self.split(p, b == 0)
            res = []
            if pz is not None:
                res.append((pz, Raise("ZeroDivisionError", "line %d" % ln)))
            if pnz is not None:
                # Python floor division: z3 div is Euclidean; equal for positive divisor
                q = fresh("fdiv", I)
                pnz.facts.append(z3.If(b > 0, z3.And(q * b <= a, a < q * b + b), z3.And(q * b >= a, a > q * b + b)))
                res.append((pnz, q))
            return res
        if isinstance(op, ast.Mod) and a.sort() == I and b.sort() == I:
            pz, pnz = self.split(p, b == 0)
            res = []
            if pz is not None:
                res.append((pz, Raise("ZeroDivisionError", "line %d" % ln)))
            if pnz is not None:
                r = fresh("mod", I)      # Python: result has the sign of the divisor
                pnz.facts.append(z3.If(b > 0, z3.And(0 <= r, r < b), z3.And(b < r, r <= 0)))
                k = fresh("modq", I)
                pnz.facts.append(a == k * b + r)
                res.append((pnz, r))
            return res
        if isinstance(op, ast.Pow):
            bb = z3.simplify(b)
            if z3.is_int_value(bb) and bb.as_long() == 2:
                return [(p, a * a)]
            if z3.is_rational_value(bb) and bb.numerator_as_long() == 1 and bb.denominator_as_long() == 2:
                ar = z3.ToReal(a) if a.sort() == I else a
                # Python: negative base ** 0.5 silently becomes complex -> we demand base >= 0 (safety obligation)
                p.obls.append(("safety.sqrt-domain@%d" % ln, ar >= 0, ln, list(p.pc), list(p.facts)))
                r = SQRT(ar)
                p.facts.append(z3.Implies(ar >= 0, z3.And(r >= 0, r * r == ar)))
                return [(p, r)]
            raise OutOfSubset("power with exponent %s" % bb)
        raise OutOfSubset("binary operator %s" % type(op).__name__)

    def ex_Subscript(self, e, p):
        out = []
        for p1, base in self.expr(e.value, p):
            if isinstance(base, Raise):
                out.append((p1, base))
                continue
            if isinstance(e.slice, ast.Slice):
                out.extend(self.slice(e, base, p1))
                continue
            for p2, ix in self.expr(e.slice, p1):
                if isinstance(ix, Raise):
                    out.append((p2, ix))
                    continue
                out.extend(self.index(e, base, ix, p2))
        return out

    def index(self, e, base, ix, p):
        ln = e.lineno
        if isinstance(base, PyList):
            n = base.n
            ix2 = z3.If(ix < 0, ix + n, ix)
            ok = z3.And(ix2 >= 0, ix2 < n)
            pok, pbad = self.split(p, ok)
            res = []
            if pbad is not None:
                res.append((pbad, Raise("IndexError", "line %d" % ln)))
            if pok is not None:
                res.append((pok, z3.Select(base.arr, z3.simplify(ix2))))
            return res
        if isinstance(base, PyTuple):
            ixs = z3.simplify(ix)
            if z3.is_int_value(ixs):
                k = ixs.as_long()
                if -len(base.items) <= k < len(base.items):
                    return [(p, base.items[k])]
                return [(p, Raise("IndexError", "line %d" % ln))]
            raise OutOfSubset("symbolic tuple index")
        if z3.is_expr(base) and base.sort() == S:
            n = z3.Length(base)
            ix2 = z3.If(ix < 0, ix + n, ix)
            ok = z3.And(ix2 >= 0, ix2 < n)
            pok, pbad = self.split(p, ok)
            res = []
            if pbad is not None:
                res.append((pbad, Raise("IndexError", "line %d" % ln)))
            if pok is not None:
                res.append((pok, z3.SubString(base, z3.simplify(ix2), 1)))
            return res
        if isinstance(base, PyDict):
            key = to_val(ix)
            cont = p.heap[base.oid]["attrs"]["contents"]
            has = z3.Function("dict_has", Val, Val, B)(cont, key)
            pok, pbad = self.split(p, has)
            res = []
            if pbad is not None:
                res.append((pbad, Raise("KeyError", "line %d" % ln)))
            if pok is not None:
                res.append((pok, z3.Function("dict_get", Val, Val, Val)(cont, key)))
            return res
        if z3.is_expr(base) and base.sort() == Val:
            # an opaque mapping / sequence (module globals(), a namespace kept on an object, ...)
            key = to_val(ix)
            has = z3.Function("dict_has", Val, Val, B)(base, key)
            pok, pbad = self.split(p, has)
            res = []
            if pbad is not None:
                res.append((pbad, Raise("KeyError", "line %d" % ln)))
            if pok is not None:
                res.append((pok, z3.Function("dict_get", Val, Val, Val)(base, key)))
            return res
        raise OutOfSubset("subscript on %r (line %d)" % (base, ln))

    def slice(self, e, base, p):
        sl = e.slice
        if sl.step is not None:
            raise OutOfSubset("slice step")
        if not (z3.is_expr(base) and base.sort() == S):
            raise OutOfSubset("slice of non-str (line %d)" % e.lineno)
        out = []
        bounds = [sl.lower, sl.upper]
        exprs = [b for b in bounds if b is not None]
        for p1, vs in self.seq(exprs, p):
            if isinstance(vs, Raise):
                out.append((p1, vs))
                continue
            it = iter(vs)
            n = z3.Length(base)
            lo = next(it) if sl.lower is not None else z3.IntVal(0)
            hi = next(it) if sl.upper is not None else n
            # Python slice clamping
            def clamp(x):
                x = z3.If(x < 0, x + n, x)
                return z3.If(x < 0, 0, z3.If(x > n, n, x))
            lo2, hi2 = clamp(lo), clamp(hi)
            ln_ = z3.If(hi2 > lo2, hi2 - lo2, 0)
            out.append((p1, z3.SubString(base, z3.simplify(lo2), z3.simplify(ln_))))
        return out

    # ---------------------------------------------------------------- calls
    INLINE_DEPTH = 3

    def inline(self, q, pos, kw, p, node):
        """a first-party module-level helper WITHOUT a sidecar contract: its body is executed in place (non-modular, but
        sound: the real code runs).  Recorded in path.ghost['inlined'] so that evidence can list it."""
        mod = self.mod.modname
        if not q.startswith(mod + ".") or "." in q[len(mod) + 1:]:
            return None
        fn = self.mod.func(q[len(mod) + 1:])
        if fn is None or fn.decorator_list:
            return None
        return self.inline_fn(fn, pos, kw, p, q)

    def inline_fn(self, fn, pos, kw, p, q):
        if getattr(self, "_depth", 0) >= self.INLINE_DEPTH:
            raise OutOfSubset("helper inlining deeper than %d (recursion?) at %s" % (self.INLINE_DEPTH, q))
        env = _bind_params(fn, pos, kw)
        sub = type(self)(self.mod, self.reg, self.tier)
        sub._depth = getattr(self, "_depth", 0) + 1
        saved = p.env
        p.env = env
        p.ghost.setdefault("inlined", []).append(q)
        outs = sub.run(fn, p)
        res = []
        for (p2, kind, v) in outs:
            p2.env = dict(saved)
            if kind == "return":
                res.append((p2, v))
            elif kind == "raise":
                res.append((p2, v))
            else:
                raise OutOfSubset("loop inside an inlined helper")
        return res

    # builtins without a dedicated model that are pure functions of their arguments: uninterpreted (listed in evidence like any
    # other unmodelled library call)
    PURE_BUILTINS = ("round", "sorted", "sum", "any", "all", "tuple", "set", "frozenset", "dict", "reversed", "enumerate", "zip", "map", "filter", "range",
                     "divmod", "pow", "repr", "bool", "ord", "chr", "format", "bytes", "bytearray", "complex", "bin", "hex", "oct", "ascii", "callable", "slice",
                     "issubclass", "type", "hasattr", "getattr", "hash")
    NONDETERMINISTIC_MODULES = ("random", "time", "os", "uuid", "secrets", "socket", "threading", "datetime", "locale", "sys", "platform", "tempfile", "getpass")

    def generic_external(self, q, pos, kw, p, node):
        """a library function without an assumed contract: modelled as an UNINTERPRETED function of its arguments that may
        raise (listed in evidence as `assumed pure`); functions of environment-dependent modules are havoc"""
        if q.startswith("builtins.") and q[9:] not in self.PURE_BUILTINS:
            return None
        if q.startswith("pyab_experiment."):
            return None
        try:
            args = [to_val(a) for a in pos] + [to_val(v) for _, v in sorted(kw.items()) if _ != "**"]
        except OutOfSubset:
            return None
        self.reg.trusted.add(q + " (no assumed contract: modelled as a pure function of its arguments)")
        root = q.split(".")[0]
        res = []
        cond = z3.Function("raises:" + q, *([Val] * len(args) + [B]))(*args) if args else z3.Const("raises:" + q, B)
        pr, pn = self.split(p, cond)
        if pr is not None:
            res.append((pr, Raise("Exception", "no-contract: %s raised" % q)))
        if pn is not None:
            if root in self.NONDETERMINISTIC_MODULES:
                pn.havoc.append((q + " (environment-dependent)", node.lineno))
                res.append((pn, fresh("havoc_" + q.replace(".", "_"), Val)))
            else:
                f = z3.Function("ext:" + q, *([Val] * len(args) + [Val]))
                res.append((pn, f(*args) if args else z3.Const("ext:" + q, Val)))
        return res

    def ex_Call(self, e, p):
        out = []
        for p1, f in self.expr(e.func, p):
            if isinstance(f, Raise):
                out.append((p1, f))
                continue
            # arguments
            kwnames = [k.arg for k in e.keywords]
            for p2, vs in self.seq(list(e.args) + [k.value for k in e.keywords], p1):
                if isinstance(vs, Raise):
                    out.append((p2, vs))
                    continue
                pos = vs[:len(e.args)]
                kw = {}
                for name, v in zip(kwnames, vs[len(e.args):]):
                    if name is None:
                        kw["**"] = v if isinstance(v, KwSplat) else KwSplat(to_val(v))
                    else:
                        kw[name] = v
                out.extend(self.call(f, pos, kw, p2, e))
        return out

    def call(self, f, pos, kw, p, node):
        if isinstance(f, QName):
            h = self.reg.lookup(f.q)
            if h is None:
                inl = self.inline(f.q, pos, kw, p, node)
                if inl is not None:
                    return inl
                gen = self.generic_external(f.q, pos, kw, p, node)
                if gen is not None:
                    return gen
                raise OutOfSubset("unmodelled call %s (line %d)" % (f.q, node.lineno))
            return h(self, p, pos, kw, node)
        if isinstance(f, tuple) and f[0] == "boundmethod":
            _, base, attr = f
            if isinstance(base, PyObj):
                cls = p.heap[base.oid]["cls"]
                h = self.reg.lookup_method(cls, attr)
                if h is None:
                    fn = self.class_method(cls, attr)
                    if fn is not None:
                        static = any(isinstance(d, ast.Name) and d.id == "staticmethod" for d in fn.decorator_list)
                        other = [d for d in fn.decorator_list if not (isinstance(d, ast.Name) and d.id == "staticmethod")]
                        if not other:
                            return self.inline_fn(fn, pos if static else [base] + pos, kw, p, "%s.%s" % (cls, attr))
                    raise OutOfSubset("unmodelled method %s.%s (line %d)" % (cls, attr, node.lineno))
                return h(self, p, [base] + pos, kw, node)
            kind = _kind_of(base)
            h = self.reg.lookup_method(kind, attr)
            if h is None:
                raise OutOfSubset("unmodelled method %s.%s (line %d)" % (kind, attr, node.lineno))
            return h(self, p, [base] + pos, kw, node)
        if isinstance(f, PyObj):
            # an instance used as a function: its class's __call__
            return self.call(("boundmethod", f, "__call__"), pos, kw, p, node)
        if z3.is_expr(f) and f.sort() == Val:
            # opaque callable value (e.g. the compiled experiment function stored on the instance)
            h = self.reg.lookup("<opaque-call>")
            return h(self, p, [f] + pos, kw, node)
        raise OutOfSubset("call of %r (line %d)" % (f, node.lineno))


def _bind_params(fn, pos, kw):
    params = [a.arg for a in fn.args.posonlyargs + fn.args.args]
    if fn.args.vararg or fn.args.kwonlyargs:
        raise OutOfSubset("inlined helper with *args / keyword-only parameters")
    env = {}
    for name, v in zip(params, pos):
        env[name] = v
    if len(pos) > len(params):
        raise OutOfSubset("too many positional arguments for inlined helper")
    extra = {}
    for k, v in kw.items():
        if k == "**" and fn.args.kwarg is not None:
            extra[k] = v
        elif k in params and k not in env:
            env[k] = v
        elif fn.args.kwarg is not None and k not in params:
            extra[k] = v
        else:
            raise OutOfSubset("bad keyword %s for inlined helper" % k)
    if fn.args.kwarg is not None:
        # **kwargs of the callee: the opaque mapping of the keywords no parameter takes (display order = sorted, as for calls)
        if "**" in extra and len(extra) > 1:
            raise OutOfSubset("**mapping mixed with further keywords for an inlined helper")
        if "**" in extra:
            term = extra["**"].term if isinstance(extra["**"], KwSplat) else to_val(extra["**"])
        else:
            term = z3.Const("emptydict", Val)
            put = z3.Function("dict_with", Val, Val, Val, Val)
            for k in sorted(extra):
                term = put(term, STR2VAL(z3.StringVal(k)), to_val(extra[k]))
        env[fn.args.kwarg.arg] = KwSplat(term)
    defaults = fn.args.defaults
    for name, d in zip(params[len(params) - len(defaults):], defaults):
        if name not in env:
            if not isinstance(d, ast.Constant):
                raise OutOfSubset("non-constant default in inlined helper")
            from .contract import _const
            env[name] = _const(d.value)
    if set(params) - set(env):
        raise OutOfSubset("missing argument for inlined helper")
    return env


def _kind_of(v):
    if isinstance(v, PyList):
        return "builtins.list"
    if isinstance(v, PyDict):
        return "builtins.dict"
    if isinstance(v, PyTuple):
        return "builtins.tuple"
    if isinstance(v, QName):
        return "qname:" + v.q
    if z3.is_expr(v):
        return {"String": "builtins.str", "Int": "builtins.int", "Real": "builtins.float", "Bytes": "builtins.bytes",
                "Val": "opaque", "Bool": "builtins.bool"}.get(str(v.sort()), "opaque")
    return "opaque"


def _as_load(t):
    t2 = ast.parse(ast.unparse(t), mode="eval").body
    return ast.copy_location(t2, t)


def _oos(msg):
    raise OutOfSubset(msg)
