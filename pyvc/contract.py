"""Sidecar contracts and the per-function verification driver for the SMT domain.

A Contract names a real function (`module:qualname` under /repo/src), and states
  shapes()    -- the finite case split of argument *kinds* (None / list / str ...), each building symbolic arguments
  requires(a) -- precondition over the arguments (list of z3 Bool)
  ensures(a, r, p)   -- named postconditions of a normal return (r = result value, p = final path or None at call sites)
  raises(a)   -- {ExcName: condition under which it MUST be raised}; any other exception is forbidden
  frame(a, p, kind)  -- named frame / effect obligations evaluated on every outcome (return and raise)
`verify()` symbolically executes the real body and emits one obligation per (path x clause) + safety obligations.
`apply()` is the callee view used at call sites (modular verification: callers never see the body).
"""
from __future__ import annotations

import ast
import os

import z3

from vcore.obl import Obl, UNDECIDED, ERROR, smt_decider
from .smt import (Exec, ModuleInfo, OutOfSubset, Path, Raise, NONE, PyNoneT, PyList, PyObj, PyTuple, KwSplat,
                  fresh, I, R, B, S, Val)

REPO = os.environ.get("VERIF_REPO", "/repo")
SRC = os.path.join(REPO, "src")

_MOD_CACHE = {}


def load_module(modname, mutate=None, path=None):
    """parse the CURRENT source of a repo module.  mutate: optional callable(tree)->tree (canary mutants, in memory)"""
    key = (modname, mutate)     # the function object itself (keeps it alive: ids are not reused)
    if key not in _MOD_CACHE:
        path = path or os.path.join(SRC, *modname.split(".")) + ".py"
        with open(path) as f:
            tree = ast.parse(f.read(), filename=path)
        if mutate is not None:
            tree = ast.fix_missing_locations(mutate(tree))
        _MOD_CACHE[key] = ModuleInfo(modname, tree)
    return _MOD_CACHE[key]


def clear_cache():
    _MOD_CACHE.clear()


class Args(dict):
    __getattr__ = dict.__getitem__


class Shape:
    def __init__(self, label, build, note=""):
        self.label, self.build, self.note = label, build, note


class Contract:
    target = ""          # "pkg.mod:qualname"
    props = ()
    self_cls = None      # qualified class name when the function is a method
    always_raises = False
    allow_any_exception = False    # exceptions not listed in raises() are allowed (state-after-exception clauses still apply)
    no_own_raises = False          # with allow_any_exception: a `raise` statement in the body itself is still forbidden
    TRANSPARENT_DECORATORS = ("staticmethod", "classmethod", "property", "_", "abstractmethod", "override", "typing.override", "final", "typing.final")
    STATEFUL_DECORATORS = ("lru_cache", "cache", "cached_property", "functools.lru_cache", "functools.cache", "functools.cached_property", "memoize", "memoized", "cached")
    callee_view = False

    def __init__(self, reg, tier="quick"):
        self.reg, self.tier = reg, tier

    # --- to override
    def shapes(self):
        raise NotImplementedError

    def requires(self, a):
        return []

    def ensures(self, a, r, p):
        return []

    def raises(self, a):
        return {}

    def frame(self, a, p, kind, pre):
        return []

    def callee_may_raise(self, a):
        """callee view only: exceptions the function MAY raise (no 'must' obligation in verify())"""
        return {}

    def result(self, a, p):
        return fresh("result", Val)

    def model_vars(self, a):
        out = {}
        for k, v in a.items():
            if z3.is_expr(v):
                out[k] = v
            elif isinstance(v, PyList):
                out[k] = (v.arr, v.n)
            elif isinstance(v, PyNoneT):
                pass
        return out

    def replay(self, obl):
        return None

    def clause_props(self, name, kind):
        """which properties a clause serves (default: all the contract's)"""
        return self.props

    # --- helpers
    @property
    def modname(self):
        return self.target.split(":")[0]

    @property
    def qual(self):
        return self.target.split(":")[1]

    @property
    def short(self):
        return self.modname.split(".")[-1] + "." + self.qual

    source_path = None      # set for functions outside /repo (e.g. CPython's Lib/bisect.py in the thorough tier)

    def module(self, mutate=None):
        return load_module(self.modname, mutate, self.source_path)

    def fndef(self, mutate=None):
        return self.module(mutate).func(self.qual)

    def bind(self, fn, pos, kw):
        """bind call-site arguments to parameter names, using the REAL signature"""
        params = [a.arg for a in fn.args.posonlyargs + fn.args.args]
        defaults = fn.args.defaults
        dmap = {}
        for name, d in zip(params[len(params) - len(defaults):], defaults):
            dmap[name] = d
        for a_, d in zip(fn.args.kwonlyargs, fn.args.kw_defaults):
            params.append(a_.arg)
            if d is not None:
                dmap[a_.arg] = d
        vals = {}
        for name, v in zip(params, pos):
            vals[name] = v
        for k, v in kw.items():
            if k == "**":
                if fn.args.kwarg is None:
                    raise OutOfSubset("** splat into function without **kwargs")
                vals[fn.args.kwarg.arg] = v
            elif k in params:
                vals[k] = v
            else:
                raise OutOfSubset("unexpected keyword %s" % k)
        for name in params:
            if name not in vals:
                if name not in dmap:
                    raise OutOfSubset("missing argument %s" % name)
                d = dmap[name]
                if not isinstance(d, ast.Constant):
                    raise OutOfSubset("non-constant default")
                vals[name] = _const(d.value)
        if fn.args.kwarg is not None and fn.args.kwarg.arg not in vals:
            vals[fn.args.kwarg.arg] = KwSplat(z3.Const("nokwargs", Val))
        return Args(vals)

    def decorator_obligations(self, fn, mod, base):
        """the contract describes the BODY; a decorator replaces what callers get by something else.  Known-transparent ones are
        ignored, memoising ones (library or first-party) make the function keep state between calls (refuted), any other is
        undecided"""
        from vcore.obl import REFUTED, DISCHARGED
        out = []
        for d in fn.decorator_list:
            f = d.func if isinstance(d, ast.Call) else d
            name = ast.unparse(f)
            if name in self.TRANSPARENT_DECORATORS or name.split(".")[-1] in ("setter", "getter"):
                continue
            q = mod.names.get(name.split(".")[0], name.split(".")[0]) + name[len(name.split(".")[0]):]
            first_party = q.startswith("pyab_experiment.") and not q.startswith("pyab_experiment.sly.")
            stateful = name in self.STATEFUL_DECORATORS or q in self.STATEFUL_DECORATORS or name.split(".")[-1] in self.STATEFUL_DECORATORS or first_party
            out.append(Obl("%s/undecorated(%s)" % (base, name), self.target, "frame",
                           "callers get the function whose body is under contract, not a wrapper (decorator %s)" % name,
                           status=REFUTED if stateful else UNDECIDED, backend="extract",
                           detail="decorated with %s (%s): %s" % (name, q, "a wrapper that keeps state between calls" if stateful else "unknown wrapper"),
                           props=self.props, model={"decorator": q} if stateful else None, replay=self.replay))
        return out

    # --- callee view
    def apply(self, ex, p, pos, kw, node):
        fn = self.fndef()
        if fn is None:
            raise OutOfSubset("callee %s not found" % self.target)
        a = self.bind(fn, pos, kw)
        for i, r in enumerate(self.requires(a)):
            p.obls.append(("pre-callee.%s.requires%d@%d" % (self.short, i, node.lineno), r, node.lineno, list(p.pc), list(p.facts)))
        out = []
        cur = p
        for exc, cond in list(self.raises(a).items()) + list(self.callee_may_raise(a).items()):
            if cur is None:
                break
            pr, cur = ex.split(cur, cond)
            if pr is not None:
                self.apply_effects(a, pr, "raise")
                out.append((pr, Raise(exc, "raised by %s per its contract" % self.short)))
        if cur is not None and not self.always_raises:
            r = self.result(a, cur)
            pre = _snapshot(cur)
            self.apply_effects(a, cur, "return")
            self.callee_view, self.callee_pre = True, pre
            try:
                for name, f in self.ensures(a, r, cur):
                    cur.facts.append(f)
            finally:
                self.callee_view = False
            out.append((cur, r))
        return out

    def apply_effects(self, a, p, kind):
        """callee view of the frame: default = no effect"""
        return

    # --- verification of the body
    def verify(self, mutate=None, tag=""):
        obls = []
        fn = self.fndef(mutate)
        base = self.short + tag
        if fn is None:
            return [Obl(base + "/exists", self.target, "safety", "function %s exists in the current tree" % self.target,
                        status=UNDECIDED, backend="extract", detail="function not found", props=self.props)]
        mod = self.module(mutate)
        n_return = 0
        obls.extend(self.decorator_obligations(fn, mod, base))
        for sh in self.shapes():
            p0 = Path()
            try:
                a = sh.build(p0)
                pre = list(self.requires(a))
                p0.pc.extend(pre)
                for name, v in a.items():
                    p0.env[name] = v
                # parameters the contract's call shape does not pass (added later, say) take their constant defaults: the
                # contract speaks about the calls the property is about, which do not pass them
                allp = fn.args.posonlyargs + fn.args.args
                for prm, d in list(zip(allp[len(allp) - len(fn.args.defaults):], fn.args.defaults)) + \
                        [(k, d) for k, d in zip(fn.args.kwonlyargs, fn.args.kw_defaults) if d is not None]:
                    if prm.arg not in p0.env and isinstance(d, ast.Constant):
                        p0.env[prm.arg] = _const(d.value)
                # vacuity guard: precondition satisfiable
                s = z3.Solver()
                s.set("timeout", 10000)
                s.add(*p0.pc, *p0.facts)
                chk = s.check()
                if chk == z3.unsat:
                    obls.append(Obl("%s/vacuity[%s]" % (base, sh.label), self.target, "safety", "precondition satisfiable",
                                    status=ERROR, backend="z3", detail="requires is contradictory", props=self.props))
                    continue
                snapshot = _snapshot(p0)
                ex = Exec(mod, self.reg, self.tier)
                outcomes = ex.run(fn, p0)
            except OutOfSubset as e:
                obls.append(Obl("%s/in-subset[%s]" % (base, sh.label), self.target, "safety",
                                "function body is inside the supported Python subset", status=UNDECIDED, backend="pyvc",
                                detail="out of subset: %s" % e, props=self.props))
                continue
            mv = self.model_vars(a)
            rz = self.raises(a)
            for k, (p, kind, v) in enumerate(outcomes):
                oid = "%s/%%s[%s]#p%d" % (base, sh.label, k)
                hyps = p.pc + p.facts

                def add(name, goal, okind, h=hyps, text=None, sat_means=None):
                    obls.append(Obl(oid % name, self.target, okind, text or ("%s: %s" % (name, _short(goal))),
                                    decide=smt_decider(h, goal, self.tier, model_vars=mv, sat_means=sat_means), props=self.clause_props(name, okind),
                                    replay=self.replay, meta={"shape": sh.label, "clause": name, "outcome": kind}))
                # safety / callee-precondition obligations collected along the path (with the pc at that point)
                for (name, goal, ln, pc_at, facts_at) in p.obls:
                    add(name, goal, "pre-callee" if name.startswith("pre-callee") else "safety", h=pc_at + facts_at)
                if kind == "loop-iteration":
                    continue
                if kind == "return":
                    n_return += 1
                    self.verify_pre = snapshot
                    for name, goal in self.ensures(a, v, p):
                        add("ensures." + name, goal, "post")
                    for exc, cond in rz.items():
                        add("raises.must:" + exc, z3.Not(cond), "raises",
                            text="normal return only when the documented %s condition does not hold" % exc)
                else:
                    exc = v.exc
                    if exc in rz:
                        add("raises.only-when:" + exc, rz[exc], "raises",
                            text="%s raised only under its documented condition (%s)" % (exc, v.info))
                    elif not self.allow_any_exception:
                        from vcore.obl import SOFT_MODULES
                        nc = (v.info or "").startswith("no-contract:") and (v.info or "")[len("no-contract:"):].strip().startswith(SOFT_MODULES)
                        add("raises.none:" + exc, z3.BoolVal(False), "raises",
                            text="no %s is ever raised (%s)" % (exc, v.info),
                            sat_means=("%s -- a library call without an assumed contract: whether it can raise on these arguments is not known to the verifier "
                                       "(needs a contract); not a counterexample" % v.info) if nc else None)
                    elif self.no_own_raises and (v.info or "").startswith("line "):
                        # exceptions may propagate from callees, but the body itself has no business raising a new one
                        add("raises.none-of-its-own:" + exc, z3.BoolVal(False), "raises",
                            text="the function raises no exception of its own (%s at %s)" % (exc, v.info))
                _prune_havoc(p, v)
                for name, goal in self.frame(a, p, kind, snapshot):
                    add("frame." + name, goal, "frame")
        if n_return == 0 and not self.always_raises and not any(o.status == UNDECIDED for o in obls):
            obls.append(Obl(base + "/reachability", self.target, "safety", "some path returns normally",
                            status=ERROR, backend="pyvc", detail="no feasible return path: contract or engine defect",
                            props=self.props))
        return obls


def _prune_havoc(p, result):
    """an environment-dependent value (a clock reading, say) that reaches neither the result, nor a branch condition, nor a
    store, nor the arguments of any call other than logging is not nondeterminism of the function: drop it from p.havoc.
    Entries without a term (shared-object reads etc.) are always kept."""
    if not any(len(h) > 2 for h in p.havoc):
        return
    seen = []

    def walk(x, depth=0):
        if depth > 6:
            return
        if z3.is_expr(x):
            seen.append(x)
        elif isinstance(x, (list, tuple, set)):
            for y in x:
                walk(y, depth + 1)
        elif isinstance(x, dict):
            for y in x.values():
                walk(y, depth + 1)
        elif hasattr(x, "__dict__") and not callable(x):
            for y in vars(x).values():
                walk(y, depth + 1)
    walk(result)
    walk(p.pc)
    walk(p.effects)
    for h in p.heap.values():
        walk(h.get("attrs", {}))
    for (_n, goal, _ln, _pc, _f) in p.obls:
        walk(goal)
    text = None
    keep = []
    for h in p.havoc:
        if len(h) < 3 or not z3.is_expr(h[2]):
            keep.append(h)
            continue
        if text is None:
            text = "\n".join(e.sexpr() for e in seen)
        if h[2].decl().name() in text:
            keep.append(h)
    p.havoc[:] = keep


def _snapshot(p):
    return {oid: dict(h["attrs"]) for oid, h in p.heap.items()}


def _const(v):
    if v is None:
        return NONE
    if isinstance(v, bool):
        return z3.BoolVal(v)
    if isinstance(v, int):
        return z3.IntVal(v)
    if isinstance(v, float):
        return z3.RealVal(repr(v))
    if isinstance(v, str):
        return z3.StringVal(v)
    raise OutOfSubset("default %r" % (v,))


def _short(goal):
    s = str(goal).replace("\n", " ")
    s = " ".join(s.split())
    return s if len(s) < 300 else s[:300] + "..."


def lemma(oid, text, hyps, goal, props, tier="quick", model_vars=None, fn="lemma"):
    return Obl(oid, fn, "lemma", text, decide=smt_decider(hyps, goal, tier, model_vars=model_vars), props=props)
