"""Registry of callee contracts seen by pyvc: ASSUMED contracts of dependencies (externals, listed in evidence as
trusted) and the sidecar contracts of first-party functions (used at call sites instead of the callee's body).

Every external handler has the signature  h(ex, path, pos, kw, node) -> [(path, value | Raise)].
Handlers append to path.facts (assumed postconditions), path.obls (callee preconditions to be proved at the call
site) and path.effects (for frame obligations).
"""
from __future__ import annotations

import z3

from .smt import (B, Bytes, I, NONE, NONEVAL, OutOfSubset, PyDict, PyList, PyNoneT, PyObj, PyTuple, QName, R, Raise,
                  S, Val, KwSplat, fresh, to_val, is_num, coerce2, LN)

MD5HEX = z3.Function("MD5HEX", Bytes, S)
UTF8 = z3.Function("UTF8", S, Bytes)
HEXVAL = z3.Function("HEXVAL", S, I)          # int(s, 16)
INTVAL = z3.Function("INTVAL", S, I)          # int(s)
FLOATVAL = z3.Function("FLOATVAL", S, R)      # float(s)
FIN = z3.Function("isfinite", R, B)
FLOAT_SYNTAX = z3.Function("float_syntax", S, B)   # s has the decimal syntax float() accepts (\\d+ or \\d+\\.\\d+)
INT_SYNTAX = z3.Function("int_syntax", S, B)       # s is a non-empty run of decimal digits
LOWER = z3.Function("str_lower", S, S)
COUNT = z3.Function("str_count", S, S, I)
MAYRAISE = {}

HEXD = z3.Union(z3.Range("0", "9"), z3.Range("a", "f"))
HEXD_ANY = z3.Union(z3.Range("0", "9"), z3.Range("a", "f"), z3.Range("A", "F"))
ASCII_RE = z3.Star(z3.Range(chr(0), chr(127)))


IMMUTABLE_CTORS = {"types.MappingProxyType", "re.compile", "builtins.frozenset", "builtins.tuple", "builtins.str", "builtins.int", "builtins.float", "builtins.bytes",
                   "decimal.Decimal", "fractions.Fraction", "string.Template", "struct.Struct", "operator.itemgetter", "operator.attrgetter"}


LOG_EMITTERS = ("debug", "info", "warning", "warn", "error", "exception", "critical", "fatal", "log")
LOG_QUERIES = ("isEnabledFor", "getEffectiveLevel", "getChild", "hasHandlers")


def is_logger(t):
    return z3.is_expr(t) and z3.is_app(t) and t.decl().name() == "logging.getLogger"


def acc_fn(sort):
    return z3.Function("ACC_%s" % sort, z3.ArraySort(I, sort), z3.ArraySort(I, sort))


def acc_axioms(warr, n, sort=R):
    """defining axioms of the running-totals spec function, instantiated for one array (left fold with +)"""
    i = z3.Int("i!acc")
    c = acc_fn(sort)(warr)
    return [z3.Implies(n > 0, c[0] == warr[0]),
            z3.ForAll([i], z3.Implies(z3.And(1 <= i, i < n), c[i] == c[i - 1] + warr[i]))]


def mayraise(name, *args):
    """deterministic 'this external call raises' predicate, a function of the call's arguments"""
    vs = [to_val(a) for a in args]
    f = z3.Function("raises:" + name, *([Val] * len(vs) + [B]))
    return f(*vs) if vs else z3.Const("raises:" + name, B)


def uf(name, *args, sort=Val):
    vs = [to_val(a) for a in args]
    f = z3.Function(name, *([Val] * len(vs) + [sort]))
    return f(*vs) if vs else z3.Const(name, sort)


def obl(p, name, goal, node):
    p.obls.append((name + "@%d" % node.lineno, goal, node.lineno, list(p.pc), list(p.facts)))


class Registry:
    def __init__(self):
        self.ext = {}
        self.methods = {}
        self.classes = {}       # cls -> {attr: ("method", None) | ("value", v)}
        self.sorts = {}         # (cls, attr) -> sort
        self.loops = {}         # (modname, lineno-independent key) -> spec
        self.trusted = set()    # names of assumed contracts actually used in this run
        self.contracts = {}     # qualified name -> Contract (first-party)
        install_externals(self)

    def lookup(self, q):
        if q in self.contracts:
            c = self.contracts[q]
            return lambda ex, p, pos, kw, node: c.apply(ex, p, pos, kw, node)
        h = self.ext.get(q)
        if h is not None:
            self.trusted.add(q)
        return h

    def lookup_method(self, cls, attr):
        q = "%s.%s" % (cls, attr)
        if q in self.contracts:
            c = self.contracts[q]
            return lambda ex, p, pos, kw, node: c.apply(ex, p, pos, kw, node)
        h = self.methods.get((cls, attr))
        if h is not None:
            self.trusted.add(q)
        return h

    def class_attr(self, cls, attr):
        return self.classes.get(cls, {}).get(attr)

    def attr_sort(self, cls, attr):
        return self.sorts.get((cls, attr), Val)

    def loop_spec(self, modname, lineno, node):
        for key, spec in self.loops.items():
            if key[0] == modname and key[1](node):
                return spec
        return None


def _num(v):
    if z3.is_expr(v) and v.sort() == Val:
        return z3.Function("val2real", Val, R)(v)      # result of an unmodelled library call used as a number
    if not is_num(v):
        raise OutOfSubset("numeric argument expected, got %r" % (v,))
    return v


def install_externals(reg):
    E, M = reg.ext, reg.methods

    # ------------------------------------------------------------------ builtins
    def b_len(ex, p, pos, kw, node):
        v = pos[0]
        if isinstance(v, PyList):
            return [(p, v.n)]
        if isinstance(v, PyTuple):
            return [(p, z3.IntVal(len(v.items)))]
        if z3.is_expr(v) and v.sort() == S:
            return [(p, z3.Length(v))]
        if z3.is_expr(v) and v.sort() == Val:
            r = z3.Function("len_of", Val, I)(v)      # an opaque container: an unknown non-negative length
            p.facts.append(r >= 0)
            return [(p, r)]
        if z3.is_expr(v) and v.sort() == Bytes:
            n = z3.Function("bytes_len", Bytes, I)(v)          # number of bytes: some non-negative integer, a function of the bytes
            p.facts.append(n >= 0)
            return [(p, n)]
        raise OutOfSubset("len of %r" % (v,))
    E["builtins.len"] = b_len

    def b_iter(ex, p, pos, kw, node):
        if len(pos) == 1 and z3.is_expr(pos[0]) and pos[0].sort() == Val:
            v = pos[0]
            if z3.is_app(v) and v.decl().name() == "list_of" and v.num_args() == 1:
                return [(p, v.arg(0))]        # iter(list(stream)) yields the items of the stream: the same token stream for a consumer
            return [(p, z3.Function("iter_of", Val, Val)(v))]
        raise OutOfSubset("iter() of %r" % (pos,))
    E["builtins.iter"] = b_iter

    def b_int(ex, p, pos, kw, node):
        v = pos[0]
        if z3.is_expr(v) and v.sort() == S:
            if len(pos) == 2 and z3.is_int_value(z3.simplify(pos[1])) and z3.simplify(pos[1]).as_long() == 10:
                pos = pos[:1]        # int(s, 10) is int(s)
            if len(pos) == 2:
                base = z3.simplify(pos[1])
                if not (z3.is_int_value(base) and base.as_long() == 16):
                    # another radix: an uninterpreted value (related to int(s) by nothing) that may raise ValueError
                    b = to_val(pos[1])
                    pbad, pok = ex.split(p, z3.Function("int_base_raises", S, Val, B)(v, b))
                    res = []
                    if pbad is not None:
                        res.append((pbad, Raise("ValueError", "int(s, base) of a malformed string, line %d" % node.lineno)))
                    if pok is not None:
                        res.append((pok, z3.Function("int_in_base", S, Val, I)(v, b)))
                    return res
                ok = z3.InRe(v, z3.Plus(HEXD_ANY))
                pok, pbad = ex.split(p, ok)
                res = []
                if pbad is not None:
                    res.append((pbad, Raise("ValueError", "int(s,16) of a non-hex string, line %d" % node.lineno)))
                if pok is not None:
                    r = HEXVAL(v)
                    pok.facts.append(r >= 0)
                    for k in (1, 2, 4, 7, 8, 9, 16, 32):
                        pok.facts.append(z3.Implies(z3.Length(v) == k, r < 16 ** k))
                    res.append((pok, r))
                return res
            ok = INT_SYNTAX(v)
            pok, pbad = ex.split(p, ok)
            res = []
            if pbad is not None:
                res.append((pbad, Raise("ValueError", "int(s) of a non-digit string, line %d" % node.lineno)))
            if pok is not None:
                r = INTVAL(v)
                pok.facts.append(r >= 0)
                res.append((pok, r))
            return res
        if is_num(v):
            return [(p, z3.ToInt(v) if v.sort() == R else v)]   # truncation == floor only for v >= 0
        raise OutOfSubset("int of %r" % (v,))
    E["builtins.int"] = b_int

    def b_float(ex, p, pos, kw, node):
        v = pos[0]
        if z3.is_expr(v) and v.sort() == S:
            ok = FLOAT_SYNTAX(v)
            pok, pbad = ex.split(p, ok)
            res = []
            if pbad is not None:
                res.append((pbad, Raise("ValueError", "float(s) of a non-decimal string, line %d" % node.lineno)))
            if pok is not None:
                r = FLOATVAL(v)
                pok.facts.append(r >= 0)
                res.append((pok, r))
            return res
        if is_num(v):
            return [(p, z3.ToReal(v) if v.sort() == I else v)]
        raise OutOfSubset("float of %r" % (v,))
    E["builtins.float"] = b_float

    def b_abs(ex, p, pos, kw, node):
        v = _num(pos[0])
        return [(p, z3.If(v >= 0, v, -v))]
    E["builtins.abs"] = b_abs

    def b_minmax(is_min):
        def h(ex, p, pos, kw, node):
            if kw or len(pos) < 2 or not all(is_num(v) for v in pos):
                raise OutOfSubset("min/max of non-numeric or a single iterable")
            r = pos[0]
            for v in pos[1:]:
                a, b = coerce2(r, v)
                r = z3.If(b < a, b, a) if is_min else z3.If(b > a, b, a)
            return [(p, r)]
        return h
    E["builtins.min"] = b_minmax(True)
    E["builtins.max"] = b_minmax(False)

    def b_list(ex, p, pos, kw, node):
        v = pos[0]
        if isinstance(v, PyList):
            return [(p, PyList(v.arr, v.n, v.sort, origin="fresh"))]
        if z3.is_expr(v) and v.sort() == Val:
            return [(p, z3.Function("list_of", Val, Val)(v))]     # the items of an opaque iterable, as an opaque list
        raise OutOfSubset("list() of %r" % (v,))
    E["builtins.list"] = b_list

    def b_str(ex, p, pos, kw, node):
        v = pos[0]
        if z3.is_expr(v) and v.sort() == S:
            return [(p, v)]
        return [(p, z3.Function("str_of", Val, S)(to_val(v)))]
    E["builtins.str"] = b_str

    def b_print(ex, p, pos, kw, node):
        p.effects.append(("io", "print", [to_val(a) for a in pos]))
        return [(p, NONE)]
    E["builtins.print"] = b_print

    def b_setattr(ex, p, pos, kw, node):
        obj, name, v = pos
        name = z3.simplify(name)
        if isinstance(obj, PyObj) and not z3.is_string_value(name):
            # the attribute NAME is data: any attribute of the object (methods included) may be overwritten
            p.effects.append(("store-attr-dynamic", obj.oid, to_val(pos[1]), v, p.heap[obj.oid]["origin"]))
            return [(p, NONE)]
        if not (isinstance(obj, PyObj) and z3.is_string_value(name)):
            raise OutOfSubset("setattr with non-constant name")
        attr = name.as_string()
        p.heap[obj.oid]["attrs"][attr] = v
        p.effects.append(("store-attr", obj.oid, attr, v, p.heap[obj.oid]["origin"]))
        return [(p, NONE)]
    E["builtins.setattr"] = b_setattr

    def b_getattr(ex, p, pos, kw, node):
        obj, name = pos[0], z3.simplify(pos[1])
        if z3.is_expr(obj) and obj.sort() == Val and z3.is_string_value(name):
            # an attribute of an opaque value (a threading.local, a namespace, ...): some value, a function of the object --
            # or the default; nothing else is known about it
            if len(pos) > 2:
                return [(p, z3.Function("getattr_or:" + name.as_string(), Val, Val, Val)(obj, to_val(pos[2])))]
            return [(p, z3.Function("attr:" + name.as_string(), Val, Val)(obj))]
        if not (isinstance(obj, PyObj) and z3.is_string_value(name)):
            raise OutOfSubset("getattr with non-constant name / non-object")
        attr = name.as_string()
        # with a default the call is total; the attribute (if present) wins
        return [(p, ex.load_attr(p, obj, attr))]
    E["builtins.getattr"] = b_getattr

    def b_isinstance(ex, p, pos, kw, node):
        if len(pos) != 2:
            raise OutOfSubset("isinstance arity")
        v, t = pos
        names = [x.q for x in (t.items if isinstance(t, PyTuple) else [t]) if isinstance(x, QName)]
        if z3.is_expr(v) and len(names) == len(t.items if isinstance(t, PyTuple) else [t]):
            srt = str(v.sort())
            exact = {"String": "builtins.str", "Bool": "builtins.bool"}.get(srt)
            if exact is not None:
                return [(p, z3.BoolVal(exact in names or (srt == "Bool" and "builtins.int" in names)))]
            # numbers: A-real does not keep int apart from float inside lists, so the dynamic type is an uninterpreted flag
            tv = z3.Const("types:" + ",".join(sorted(names)), Val)
            return [(p, z3.Function("isinstance", Val, Val, B)(to_val(v), tv))]
        raise OutOfSubset("isinstance of %r" % (v,))
    E["builtins.isinstance"] = b_isinstance

    def b_globals(ex, p, pos, kw, node):
        p.effects.append(("global-object-read", "globals()", node.lineno))
        return [(p, z3.Const("module-globals", Val))]
    E["builtins.globals"] = b_globals

    def b_super(ex, p, pos, kw, node):
        return [(p, p.new_obj("builtins.super", origin="fresh"))]
    E["builtins.super"] = b_super

    def super_init(ex, p, pos, kw, node):
        p.effects.append(("call", "super().__init__", [to_val(a) for a in pos[1:]]))
        return [(p, NONE)]
    M[("builtins.super", "__init__")] = super_init

    def b_compile(ex, p, pos, kw, node):
        src = pos[0]
        mode = z3.simplify(pos[2]) if len(pos) > 2 else None
        if mode is None or not (z3.is_string_value(mode) and mode.as_string() == "exec"):
            raise OutOfSubset("compile() mode")
        res = []
        pr, pn = ex.split(p, mayraise("compile", src))
        if pr is not None:
            res.append((pr, Raise("CompileException", "compile() failed")))
        if pn is not None:
            res.append((pn, uf("COMPILE", src)))
        return res
    E["builtins.compile"] = b_compile

    def b_exec(ex, p, pos, kw, node):
        code = pos[0]
        glb = pos[1] if len(pos) > 1 else NONE
        loc = pos[2] if len(pos) > 2 else NONE
        if isinstance(glb, PyDict) and isinstance(loc, PyNoneT):
            # exec(code, ns): the code's own definitions and its imports share ONE namespace (a different function)
            res = []
            pr, pn = ex.split(p, mayraise("exec", code))
            if pr is not None:
                res.append((pr, Raise("ExecException", "exec() raised")))
            if pn is not None:
                old = pn.heap[glb.oid]["attrs"]["contents"]
                pn.heap[glb.oid]["attrs"]["contents"] = uf("EXEC_AS_GLOBALS", code, old)
                pn.effects.append(("call", "exec", [to_val(code)]))
                res.append((pn, NONE))
            return res
        if not isinstance(glb, PyNoneT) or not isinstance(loc, PyDict):
            # exec into something that is not a dict allocated in this call (module globals(), an attribute of the instance...)
            target = glb if not isinstance(glb, PyNoneT) else loc
            res = []
            pr, pn = ex.split(p, mayraise("exec", code))
            if pr is not None:
                res.append((pr, Raise("ExecException", "exec() raised")))
            if pn is not None:
                pn.effects.append(("exec-into-shared-namespace", to_val(target) if not isinstance(target, PyNoneT) else NONEVAL))
                pn.effects.append(("call", "exec", [to_val(code)]))
                if isinstance(target, PyDict):
                    pn.heap[target.oid]["attrs"]["contents"] = uf("EXEC_SHARED", code, pn.heap[target.oid]["attrs"]["contents"])
                res.append((pn, NONE))
            return res
        if p.heap[loc.oid]["origin"] != "fresh":
            obl(p, "frame.exec-into-fresh-dict", z3.BoolVal(False), node)
        res = []
        pr, pn = ex.split(p, mayraise("exec", code))
        if pr is not None:
            res.append((pr, Raise("ExecException", "exec() raised")))
        if pn is not None:
            old = pn.heap[loc.oid]["attrs"]["contents"]
            new = uf("EXEC", code, old)
            pn.heap[loc.oid]["attrs"]["contents"] = new
            pn.effects.append(("call", "exec", [to_val(code)]))
            res.append((pn, NONE))
        return res
    E["builtins.exec"] = b_exec

    # ------------------------------------------------------------------ logging (assumed contract)
    # A-log: logging.getLogger returns the process-wide logger of that name and does not raise; the emitting methods
    # (debug/info/warning/error/exception/critical/log and the module-level functions of the same names) return None, do not
    # raise into the caller (errors inside handlers go to logging's handleError) and do not change anything the program
    # reads; the level queries are deterministic functions of the logger.  Their ARGUMENTS are still evaluated by the
    # executor, so an eagerly formatted message ("%s" % item) keeps its own obligations.
    def log_get(ex, p, pos, kw, node):
        ex.reg.trusted.add("logging: assumed contract A-log (emitting never raises into the caller and has no effect the program reads)")
        return [(p, uf("logging.getLogger", *pos))]
    E["logging.getLogger"] = log_get

    def t_cast(ex, p, pos, kw, node):          # typing.cast(T, v) is v
        if len(pos) != 2:
            raise OutOfSubset("typing.cast with keywords")
        return [(p, pos[1])]
    E["typing.cast"] = t_cast

    def log_emit(ex, p, pos, kw, node):
        ex.reg.trusted.add("logging: assumed contract A-log (emitting never raises into the caller and has no effect the program reads)")
        p.ghost.setdefault("log_calls", []).append(node.lineno)
        return [(p, NONE)]
    for _m in LOG_EMITTERS:
        E["logging." + _m] = log_emit

    def opaque_call(ex, p, pos, kw, node):
        f = pos[0]
        if z3.is_expr(f) and z3.is_app(f) and f.decl().name().startswith("attr:") and f.num_args() == 1 and is_logger(f.arg(0)):
            meth = f.decl().name()[5:]
            ex.reg.trusted.add("logging: assumed contract A-log (emitting never raises into the caller and has no effect the program reads)")
            if meth in LOG_EMITTERS:
                p.ghost.setdefault("log_calls", []).append(node.lineno)
                return [(p, NONE)]
            if meth in LOG_QUERIES:
                return [(p, uf("logging.Logger." + meth, f.arg(0), *pos[1:]))]
        args = [to_val(a) for a in pos[1:]]
        kws = kw.get("**")
        if [k for k in kw if k != "**"]:
            raise OutOfSubset("opaque call with explicit keywords")
        argt = kws.term if kws is not None else z3.Const("nokwargs", Val)
        res = []
        if args:
            # a callable VALUE applied to positional arguments (a wrapper factory such as lru_cache(...)(f), a method of an
            # opaque object such as a compiled regex): an uninterpreted function of the callee and its arguments; a method
            # of a module-level object whose constructor is not known to build immutable values reads shared mutable state
            n = len(args)
            cond = z3.Function("raises:APPLY%d" % n, *([Val] * (n + 2) + [B]))(f, *args, argt)
            result = z3.Function("APPLY%d" % n, *([Val] * (n + 2) + [Val]))(f, *args, argt)
            shared = None
            if z3.is_app(f) and f.decl().name().startswith("attr:") and f.num_args() == 1:
                shared = p.ghost.get("opaque_globals", {}).get(f.arg(0).sexpr())
        else:
            cond = z3.Function("raises:APPLY", Val, Val, B)(f, argt)
            result = z3.Function("APPLY", Val, Val, Val)(f, argt)
            shared = None
        pr, pn = ex.split(p, cond)
        p.effects.append(("call-opaque", f, argt))
        if pr is not None:
            pr.effects.append(("call-opaque", f, argt))
            res.append((pr, Raise("Propagated", "exception of the called function")))
        if pn is not None:
            pn.effects.append(("call-opaque", f, argt))
            if shared is not None and shared[1] not in IMMUTABLE_CTORS:
                pn.havoc.append(("method of the module-level object %s built by %s (shared, possibly mutable)" % shared, node.lineno))
                pn.effects.append(("global-mutable-call", shared[0], shared[1], node.lineno))
                result = fresh("havoc_shared_" + shared[0], Val)
            res.append((pn, result))
        return res
    E["<opaque-call>"] = opaque_call

    # nondeterminism sources: modelled as havoc so that determinism clauses fail
    def havoc_of(name, sort=Val):
        def h(ex, p, pos, kw, node):
            v = fresh("havoc_" + name.replace(".", "_"), sort)
            p.havoc.append((name, node.lineno, v))
            return [(p, v)]
        return h
    for nm, srt in (("builtins.hash", I), ("builtins.id", I), ("time.time", R), ("time.time_ns", I), ("random.random", R),
                    ("random.randint", I), ("os.getpid", I), ("random.getrandbits", I), ("time.monotonic", R),
                    ("os.urandom", Bytes), ("uuid.uuid4", Val), ("random.uniform", R), ("time.perf_counter", R)):
        E[nm] = havoc_of(nm, srt)

    # ------------------------------------------------------------------ str / bytes methods
    def s_encode(ex, p, pos, kw, node):
        s = pos[0]
        codec = z3.simplify(pos[1]) if len(pos) > 1 else (z3.simplify(kw["encoding"]) if "encoding" in kw else z3.StringVal("utf-8"))
        if not z3.is_string_value(codec):
            raise OutOfSubset("encode() with symbolic codec")
        c = codec.as_string().lower().replace("_", "-")
        if ("errors" in kw) or len(pos) > 2:
            # errors='ignore'/'replace' drop or substitute characters: a different (lossy) function of s
            return [(p, uf("ENCODE_LOSSY_" + c, s, sort=Bytes))]
        if c in ("utf-8", "utf8"):
            return [(p, UTF8(s))]
        if c in ("ascii", "us-ascii"):
            ok = z3.InRe(s, ASCII_RE)
            pok, pbad = ex.split(p, ok)
            res = []
            if pbad is not None:
                res.append((pbad, Raise("UnicodeEncodeError", "str.encode('ascii') of a non-ASCII string, line %d" % node.lineno)))
            if pok is not None:
                res.append((pok, UTF8(s)))     # ASCII and UTF-8 agree on ASCII-only strings
            return res
        if c in ("latin-1", "latin1", "iso-8859-1"):
            ok = z3.InRe(s, z3.Star(z3.Range(chr(0), chr(255))))
            pok, pbad = ex.split(p, ok)
            res = []
            if pbad is not None:
                res.append((pbad, Raise("UnicodeEncodeError", "str.encode('latin-1'), line %d" % node.lineno)))
            if pok is not None:
                pa, pna = ex.split(pok, z3.InRe(s, ASCII_RE))
                if pa is not None:
                    res.append((pa, UTF8(s)))
                if pna is not None:
                    res.append((pna, uf("ENCODE_latin1", s, sort=Bytes)))
            return res
        return [(p, uf("ENCODE_" + c, s, sort=Bytes))]
    M[("builtins.str", "encode")] = s_encode

    def s_lower(ex, p, pos, kw, node):
        return [(p, LOWER(pos[0]))]
    M[("builtins.str", "lower")] = s_lower

    def s_count(ex, p, pos, kw, node):
        r = COUNT(pos[0], pos[1])
        p.facts.append(r >= 0)
        return [(p, r)]
    M[("builtins.str", "count")] = s_count

    # any other pure str method: an uninterpreted function of (receiver, arguments)
    def pure_str_method(name, sort):
        def h(ex, p, pos, kw, node):
            if kw:
                raise OutOfSubset("str.%s with keywords" % name)
            return [(p, uf("str." + name, *pos, sort=sort))]
        return h
    for nm in ("strip", "lstrip", "rstrip", "replace", "upper", "title", "casefold", "capitalize", "swapcase", "zfill",
               "join", "format", "removeprefix", "removesuffix", "expandtabs", "center", "ljust", "rjust", "translate"):
        M[("builtins.str", nm)] = pure_str_method(nm, S)
    for nm in ("split", "rsplit", "splitlines", "partition", "rpartition"):
        M[("builtins.str", nm)] = pure_str_method(nm, Val)
    for nm in ("startswith", "endswith", "isdigit", "isalpha", "isalnum", "isspace", "isascii", "isidentifier", "islower", "isupper"):
        M[("builtins.str", nm)] = pure_str_method(nm, B)
    for nm in ("find", "rfind"):
        M[("builtins.str", nm)] = pure_str_method(nm, I)

    # ------------------------------------------------------------------ hashlib
    def make_hash(name, hexfn, hexlen):
        def ctor(ex, p, pos, kw, node):
            if len(pos) == 1 and z3.is_expr(pos[0]) and pos[0].sort() == Val:
                # bytes produced by an unmodelled function: an opaque byte string
                return [(p, p.new_obj("hashlib." + name, attrs={"data": z3.Function("val2bytes", Val, Bytes)(pos[0])}))]
            if len(pos) != 1 or not (z3.is_expr(pos[0]) and pos[0].sort() == Bytes):
                if len(pos) == 1 and z3.is_expr(pos[0]) and pos[0].sort() == S:
                    return [(p, Raise("TypeError", "hashing a str (must be encoded), line %d" % node.lineno))]
                raise OutOfSubset("hashlib.%s argument" % name)
            return [(p, p.new_obj("hashlib." + name, attrs={"data": pos[0]}))]

        def hexdigest(ex, p, pos, kw, node):
            data = p.heap[pos[0].oid]["attrs"]["data"]
            d = hexfn(data)
            p.facts.append(z3.InRe(d, z3.Loop(HEXD, hexlen, hexlen)))
            p.facts.append(z3.Length(d) == hexlen)
            return [(p, d)]
        E["hashlib." + name] = ctor
        M[("hashlib." + name, "hexdigest")] = hexdigest
    make_hash("md5", MD5HEX, 32)
    make_hash("sha1", z3.Function("SHA1HEX", Bytes, S), 40)
    make_hash("sha256", z3.Function("SHA256HEX", Bytes, S), 64)

    # ------------------------------------------------------------------ math
    def m_floor(ex, p, pos, kw, node):
        v = _num(pos[0])
        return [(p, z3.ToInt(v) if v.sort() == R else v)]   # z3 to_int is floor
    E["math.floor"] = m_floor

    def m_ceil(ex, p, pos, kw, node):
        v = _num(pos[0])
        return [(p, -z3.ToInt(-v) if v.sort() == R else v)]
    E["math.ceil"] = m_ceil

    def m_isfinite(ex, p, pos, kw, node):
        v = _num(pos[0])
        return [(p, FIN(z3.ToReal(v) if v.sort() == I else v))]
    E["math.isfinite"] = m_isfinite

    def m_log(ex, p, pos, kw, node):
        if len(pos) != 1:
            raise OutOfSubset("log with base")
        v = _num(pos[0])
        v = z3.ToReal(v) if v.sort() == I else v
        pok, pbad = ex.split(p, v > 0)
        res = []
        if pbad is not None:
            res.append((pbad, Raise("ValueError", "math domain error (log), line %d" % node.lineno)))
        if pok is not None:
            res.append((pok, LN(v)))
        return res
    E["math.log"] = m_log

    def m_sqrt(ex, p, pos, kw, node):
        from .smt import SQRT
        v = _num(pos[0])
        v = z3.ToReal(v) if v.sort() == I else v
        pok, pbad = ex.split(p, v >= 0)
        res = []
        if pbad is not None:
            res.append((pbad, Raise("ValueError", "math domain error (sqrt), line %d" % node.lineno)))
        if pok is not None:
            r = SQRT(v)
            pok.facts.append(z3.And(r >= 0, r * r == v))
            res.append((pok, r))
        return res
    E["math.sqrt"] = m_sqrt

    # ------------------------------------------------------------------ itertools / bisect / random
    def it_accumulate(ex, p, pos, kw, node):
        w = pos[0]
        if not isinstance(w, PyList) or len(pos) != 1 or kw:
            raise OutOfSubset("accumulate() with func/initial or non-list")
        # the running totals are a FUNCTION of the input array (spec function ACC), defined by the usual recurrence
        c = PyList(acc_fn(w.sort)(w.arr), w.n, w.sort, origin="fresh", kind="iterator")
        p.facts.extend(acc_axioms(w.arr, w.n, w.sort))
        p.ghost.setdefault("accumulate", []).append((w, c))
        return [(p, c)]
    E["itertools.accumulate"] = it_accumulate

    def make_bisect(right):
        def h(ex, p, pos, kw, node):
            a = pos[0]
            x = _num(pos[1])
            if not isinstance(a, PyList):
                raise OutOfSubset("bisect on non-list")
            lo = pos[2] if len(pos) > 2 else kw.get("lo", z3.IntVal(0))
            hi = pos[3] if len(pos) > 3 else kw.get("hi", a.n)
            if isinstance(hi, PyNoneT):
                hi = a.n
            if "key" in kw:
                raise OutOfSubset("bisect key=")
            i, j = z3.Int("i!bs"), z3.Int("j!bs")
            xs, _ = coerce2(x, z3.RealVal(0)) if a.sort == R else (x, None)
            # preconditions of the assumed contract, to be proved at the call site
            pneg, pok = ex.split(p, lo < 0)
            res = []
            if pneg is not None:
                res.append((pneg, Raise("ValueError", "lo must be non-negative")))
            if pok is None:
                return res
            p = pok
            obl(p, "pre-callee.bisect.bounds", z3.And(0 <= lo, lo <= hi, hi <= a.n), node)
            obl(p, "pre-callee.bisect.sorted", z3.ForAll([i], z3.Implies(z3.And(lo <= i, i + 1 < hi), a.arr[i] <= a.arr[i + 1])), node)
            r = fresh("bisect", I)
            if right:
                p.facts += [lo <= r, r <= hi,
                            z3.ForAll([j], z3.Implies(z3.And(lo <= j, j < r), a.arr[j] <= xs)),
                            z3.ForAll([j], z3.Implies(z3.And(r <= j, j < hi), a.arr[j] > xs))]
            else:
                p.facts += [lo <= r, r <= hi,
                            z3.ForAll([j], z3.Implies(z3.And(lo <= j, j < r), a.arr[j] < xs)),
                            z3.ForAll([j], z3.Implies(z3.And(r <= j, j < hi), a.arr[j] >= xs))]
            p.ghost["bisect"] = r
            res.append((p, r))
            return res
        return h
    E["bisect.bisect"] = E["bisect.bisect_right"] = make_bisect(True)
    E["bisect.bisect_left"] = make_bisect(False)

    def rnd_choices(ex, p, pos, kw, node):
        pop = pos[0] if pos else kw.get("population")
        if not isinstance(pop, PyList):
            raise OutOfSubset("choices population")
        w = pos[1] if len(pos) > 1 else kw.get("weights", NONE)
        cw = kw.get("cum_weights", NONE)
        k = kw.get("k", z3.IntVal(1))
        p.effects.append(("call", "random.choices", {"population": pop, "weights": w, "cum_weights": cw, "k": k}))
        p.havoc.append(("random.choices", node.lineno))
        res = []
        pr, pn = ex.split(p, uf("raises:random.choices", pop, w, cw, sort=B))
        if pr is not None:
            res.append((pr, Raise("Propagated", "random.choices raised (documented errors)")))
        if pn is not None:
            r = PyList(fresh("choices", z3.ArraySort(I, pop.sort)), k, pop.sort, origin="fresh")
            j = fresh("chosen", I)
            pn.facts += [0 <= j, j < pop.n, r.arr[0] == pop.arr[j]]
            pn.ghost["choices_idx"] = j
            res.append((pn, r))
        return res
    E["random.choices"] = rnd_choices
