"""pyvc -- E1-T, structural domain: a partial evaluator that runs the REAL bodies of the grammar actions and of the
code generator on *symbolic* AST nodes.  Values are Python constants, symbolic atoms (Sym), model instances (Node),
enum members (EnumV), symbolic sets / sequences of names (SetT / SeqT) and string *templates* (Tmpl): concatenations
of literal chunks and typed holes.  Every branch condition must be decided by the current shape (constructor, enum
member, None-ness, layout flag); otherwise the run stops with Undetermined and the obligation is UNDECIDED.
Calls to methods named in `contracts` are replaced by their contract (induction hypothesis for recursive calls).
"""
from __future__ import annotations

import ast
import itertools

_ids = itertools.count()


class Unsupported(Exception):
    pass


class Undetermined(Exception):
    pass


class GenRaise(Exception):
    """the executed code raised"""
    def __init__(self, exc, text=""):
        Exception.__init__(self, "%s %s" % (exc, text))
        self.exc = exc


class Sym:
    """opaque symbolic value.  kind: str | int | float | ident | tuple | list | node:<Type> | groups | any"""
    def __init__(self, name, kind, **info):
        self.name, self.kind, self.info, self.id = name, kind, info, next(_ids)

    def __repr__(self):
        return "<%s:%s>" % (self.kind, self.name)


class Node:
    def __init__(self, cls, **fields):
        self.cls, self.fields, self.id = cls, fields, next(_ids)

    def __repr__(self):
        return "%s(%s)" % (self.cls, ", ".join("%s=%r" % kv for kv in self.fields.items()))


class EnumV:
    def __init__(self, cls, name):
        self.cls, self.name = cls, name

    def __eq__(self, o):
        return isinstance(o, EnumV) and (self.cls, self.name) == (o.cls, o.name)

    def __hash__(self):
        return hash((self.cls, self.name))

    def __repr__(self):
        return "%s.%s" % (self.cls, self.name)


class Hole:
    def __init__(self, kind, payload=None, **kw):
        self.kind, self.payload, self.kw, self.id = kind, payload, kw, next(_ids)

    def __repr__(self):
        extra = ",".join("%s=%s" % kv for kv in self.kw.items())
        return "<%s#%d%s>" % (self.kind, self.id, (":" + extra) if extra else "")


class Tmpl:
    def __init__(self, parts=()):
        out = []
        for p in parts:
            if isinstance(p, Tmpl):
                out.extend(p.parts)
            elif p == "":
                continue
            elif isinstance(p, str) and out and isinstance(out[-1], str):
                out[-1] += p
            else:
                out.append(p)
        self.parts = out

    def __add__(self, o):
        return Tmpl(self.parts + (o.parts if isinstance(o, Tmpl) else [o]))

    def __radd__(self, o):
        return Tmpl([o] + self.parts)

    def definitely_nonempty(self):
        return any(isinstance(p, str) and p for p in self.parts) or any(isinstance(p, Hole) and p.kw.get("nonempty") for p in self.parts)

    def is_empty(self):
        return not self.parts

    def holes(self):
        return [p for p in self.parts if isinstance(p, Hole)]

    def __repr__(self):
        return "".join(p if isinstance(p, str) else repr(p) for p in self.parts)


class SetT:
    """symbolic set of names: union of atoms  ('of', seq-sym) | ('ids', node) | ('elem', value)"""
    def __init__(self, atoms=()):
        self.atoms = tuple(atoms)

    def union(self, other):
        a = list(self.atoms)
        for x in other.atoms:
            if not any(_same(x, y) for y in a):
                a.append(x)
        return SetT(a)

    def __repr__(self):
        return "{" + " ∪ ".join("%s(%r)" % (k, v) for k, v in self.atoms) + "}"


def _same(a, b):
    return a[0] == b[0] and a[1] is b[1]


class SeqT:
    """symbolic sequence of names / texts:  ('sorted', SetT) | ('cat', [SeqT|list]) | ('map', fn, SeqT) | ('sym', Sym)"""
    def __init__(self, op, *args):
        self.op, self.args = op, args

    def __repr__(self):
        return "%s(%s)" % (self.op, ", ".join(repr(a) for a in self.args))


class Depth:
    """symbolic indentation depth  base + k"""
    def __init__(self, k=0, absolute=None):
        self.k, self.absolute = k, absolute

    def plus(self, d):
        return Depth(self.k + d, None if self.absolute is None else self.absolute + d)

    def __repr__(self):
        return "depth(%s)" % (self.absolute if self.absolute is not None else "d%+d" % self.k)


class Obj:
    """the generator instance (self) or another mutable record"""
    def __init__(self, cls, **attrs):
        self.cls, self.attrs = cls, dict(attrs)
        self.log = []


class Ret(Exception):
    def __init__(self, v):
        self.v = v


class SExec:
    def __init__(self, classdef=None, module_names=None, contracts=None, enums=None, models=None, on_attr=None):
        self.cls = classdef
        self.methods = {}
        self.props = set()
        if classdef is not None:
            for n in classdef.body:
                if isinstance(n, ast.FunctionDef):
                    self.methods[n.name] = n
                    if any(isinstance(d, ast.Name) and d.id == "property" for d in n.decorator_list):
                        self.props.add(n.name)
        self.module_names = module_names or {}
        self.contracts = contracts or {}     # method name -> callable(ex, me, *args) -> value
        self.enums = enums or {}             # enum class name -> set(member names)
        self.models = models or set()        # model class names
        self.on_attr = on_attr
        self.calls = []                      # log of self-method calls (for ordering / effect obligations)

    # ------------------------------------------------------------------ running
    def call_function(self, fn, env):
        try:
            self.block(fn.body, env)
        except Ret as r:
            return r.v
        return None

    def call_method(self, name, me, args, kwargs=None):
        fn = self.methods.get(name)
        if fn is None:
            raise Unsupported("method %s not found" % name)
        params = [a.arg for a in fn.args.args]
        static = any(isinstance(d, ast.Name) and d.id == "staticmethod" for d in fn.decorator_list)
        env = {} if static else {params[0]: me}
        for pname, v in zip(params if static else params[1:], args):
            env[pname] = v
        for k, v in (kwargs or {}).items():
            env[k] = v
        ndef = len(fn.args.defaults)
        for pname, d in zip(params[len(params) - ndef:], fn.args.defaults):
            if pname not in env:
                env[pname] = self.ev(d, {})
        missing = [p for p in params if p not in env]
        if missing:
            raise Unsupported("missing arguments %s for %s" % (missing, name))
        return self.call_function(fn, env)

    def block(self, stmts, env):
        for st in stmts:
            self.stmt(st, env)

    def stmt(self, st, env):
        if isinstance(st, ast.Expr):
            if isinstance(st.value, ast.Constant):
                return
            self.ev(st.value, env)
            return
        if isinstance(st, ast.Pass):
            return
        if isinstance(st, ast.Return):
            raise Ret(self.ev(st.value, env) if st.value is not None else None)
        if isinstance(st, ast.Assign):
            v = self.ev(st.value, env)
            for t in st.targets:
                self.assign(t, v, env)
            return
        if isinstance(st, ast.AnnAssign):
            if st.value is not None:
                self.assign(st.target, self.ev(st.value, env), env)
            return
        if isinstance(st, ast.AugAssign):
            cur = self.ev(_load(st.target), env)
            v = self.binop(st.op, cur, self.ev(st.value, env))
            self.assign(st.target, v, env)
            return
        if isinstance(st, ast.If):
            c = self.truth(self.ev(st.test, env), st.test)
            self.block(st.body if c else st.orelse, env)
            return
        if isinstance(st, ast.Match):
            subj = self.ev(st.subject, env)
            for case in st.cases:
                if self.match(case.pattern, subj, env):
                    if case.guard is not None and not self.truth(self.ev(case.guard, env), case.guard):
                        continue
                    self.block(case.body, env)
                    return
            return
        if isinstance(st, ast.For):
            it = self.ev(st.iter, env)
            if isinstance(it, (list, tuple)):
                for x in it:
                    self.assign(st.target, x, env)
                    self.block(st.body, env)
                return
            if isinstance(it, (SeqT, Sym)):
                return self.for_summary(st, it, env)
            raise Unsupported("for over %r" % (it,))
        if isinstance(st, ast.Raise):
            name = ast.unparse(st.exc.func if isinstance(st.exc, ast.Call) else st.exc) if st.exc is not None else "reraise"
            raise GenRaise(name, "line %d" % st.lineno)
        if isinstance(st, ast.Assert):
            if not self.truth(self.ev(st.test, env), st.test):
                raise GenRaise("AssertionError", "line %d" % st.lineno)
            return
        raise Unsupported("statement %s (line %d)" % (type(st).__name__, st.lineno))

    def for_summary(self, st, seq, env):
        """for x in <symbolic sequence>: self.<set>.add(x)   ==>   set |= set-of(sequence)"""
        if len(st.body) == 1 and isinstance(st.body[0], ast.Expr) and isinstance(st.body[0].value, ast.Call):
            c = st.body[0].value
            if (isinstance(c.func, ast.Attribute) and c.func.attr == "add" and len(c.args) == 1 and isinstance(c.args[0], ast.Name)
                    and isinstance(st.target, ast.Name) and c.args[0].id == st.target.id):
                tgt = self.ev(c.func.value, env)
                if isinstance(tgt, SetRef):
                    tgt.set(tgt.get().union(SetT([("of", seq)])))
                    return
        raise Unsupported("loop over a symbolic sequence with a body other than `<set>.add(x)` (line %d)" % st.lineno)

    def assign(self, t, v, env):
        if isinstance(t, ast.Name):
            env[t.id] = v
            return
        if isinstance(t, ast.Attribute):
            base = self.ev(t.value, env)
            if isinstance(base, Obj):
                base.attrs[t.attr] = v
                base.log.append(("store", t.attr, v))
                return
        raise Unsupported("assignment target %s" % ast.unparse(t))

    # ------------------------------------------------------------------ patterns
    def match(self, pat, v, env):
        if isinstance(pat, ast.MatchClass):
            name = ast.unparse(pat.cls)
            ok = self.isinstance_(v, name)
            if ok is None:
                raise Undetermined("case %s() on %r" % (name, v))
            if not ok:
                return False
            if pat.patterns:
                raise Unsupported("positional class pattern")
            for k, p in zip(pat.kwd_attrs, pat.kwd_patterns):
                sub = self.getattr_(v, k)
                if not self.match(p, sub, env):
                    return False
            return True
        if isinstance(pat, ast.MatchValue):
            want = self.ev(pat.value, env)
            r = self.eq(v, want)
            if r is None:
                raise Undetermined("case %s on %r" % (ast.unparse(pat.value), v))
            return r
        if isinstance(pat, ast.MatchSingleton):
            if isinstance(v, (Sym, Tmpl)):
                if pat.value is None and isinstance(v, Sym) and v.kind != "any":
                    return False
                raise Undetermined("case %r on %r" % (pat.value, v))
            return v is pat.value
        if isinstance(pat, ast.MatchSequence):
            # only the shape test `[*_]` is supported: is the subject a (non-str) sequence?
            if not (len(pat.patterns) == 1 and isinstance(pat.patterns[0], ast.MatchStar)):
                raise Unsupported("sequence pattern with elements")
            return self.is_sequence(v)
        if isinstance(pat, ast.MatchAs):
            if pat.pattern is not None and not self.match(pat.pattern, v, env):
                return False
            if pat.name is not None:
                env[pat.name] = v
            return True
        if isinstance(pat, ast.MatchOr):
            return any(self.match(p, v, env) for p in pat.patterns)
        raise Unsupported("pattern %s" % type(pat).__name__)

    def is_sequence(self, v):
        if isinstance(v, (list, tuple)):
            return True
        if isinstance(v, Sym):
            if v.kind in ("groups", "list", "tuple"):
                return True
            if v.kind in ("str", "int", "float", "ident") or v.kind.startswith("node:"):
                return False
            raise Undetermined("is %r a sequence?" % v)
        if isinstance(v, SeqT):
            return True
        return False

    def isinstance_(self, v, name):
        if isinstance(v, Node):
            return v.cls == name
        if isinstance(v, Sym):
            if v.kind.startswith("node:"):
                return v.kind[5:] == name
            kinds = {"str": "str", "int": "int", "float": "float", "tuple": "tuple", "list": "list", "groups": "list", "ident": "str"}
            if v.kind in kinds:
                k = kinds[v.kind]
                if name == k:
                    return True
                if name in ("str", "int", "float", "tuple", "list", "bool") or name in self.models:
                    return False
            return None
        if isinstance(v, EnumV):
            return v.cls == name
        if v is None:
            return False
        py = {"str": str, "int": int, "float": float, "tuple": tuple, "list": list, "bool": bool}
        if name in py:
            if isinstance(v, Tmpl):
                return name == "str"
            return isinstance(v, py[name]) and not (name == "int" and isinstance(v, bool))
        if name in self.models or name in self.enums:
            return False
        return None

    # ------------------------------------------------------------------ expressions
    def truth(self, v, node=None):
        if isinstance(v, bool):
            return v
        if v is None:
            return False
        if isinstance(v, (str, list, tuple, dict, int, float)):
            return bool(v)
        if isinstance(v, Tmpl):
            if v.is_empty():
                return False
            if v.definitely_nonempty():
                return True
        if isinstance(v, (Node, Obj, EnumV)):
            return True
        if isinstance(v, Sym) and v.info.get("nonempty") is not None:
            return v.info["nonempty"]
        if isinstance(v, SeqT) and v.op == "sym" and v.args[0].info.get("nonempty") is not None:
            return v.args[0].info["nonempty"]
        raise Undetermined("truth of %r%s" % (v, " in `%s`" % ast.unparse(node) if node is not None else ""))

    def eq(self, a, b):
        if isinstance(a, EnumV) or isinstance(b, EnumV):
            if isinstance(a, EnumV) and isinstance(b, EnumV):
                return a == b
            if isinstance(a, (Sym,)) or isinstance(b, (Sym,)):
                return None
            return False
        if isinstance(a, (Sym, Tmpl, SeqT, SetT, Hole)) or isinstance(b, (Sym, Tmpl, SeqT, SetT, Hole)):
            if a is b:
                return True
            if isinstance(a, Tmpl) and isinstance(b, str):
                if b == "" :
                    return a.is_empty() if (a.is_empty() or a.definitely_nonempty()) else None
            return None
        return a == b

    def getattr_(self, base, attr):
        if isinstance(base, Node):
            if attr in base.fields:
                return base.fields[attr]
            raise GenRaise("AttributeError", "%s has no field %s" % (base.cls, attr))
        if isinstance(base, Obj):
            if attr in base.attrs:
                v = base.attrs[attr]
                if isinstance(v, SetT):
                    return SetRef(base, attr)
                return v
            if attr in self.props:
                return self.dispatch(attr, base, [], {})
            if attr in self.methods:
                return ("bound", base, attr)
            raise GenRaise("AttributeError", "generator has no attribute %s" % attr)
        if isinstance(base, ("".__class__,)):
            return ("strmethod", base, attr)
        if isinstance(base, Sym) and base.kind in ("str", "ident"):
            return ("symstrmethod", base, attr)
        if isinstance(base, Tmpl):
            return ("strmethod", base, attr)
        if isinstance(base, SetRef):
            return ("setmethod", base, attr)
        if self.on_attr is not None:
            r = self.on_attr(base, attr)
            if r is not NotImplemented:
                return r
        if isinstance(base, list):
            return ("listmethod", base, attr)
        raise Unsupported("attribute %s of %r" % (attr, base))

    def ev(self, e, env):
        if isinstance(e, ast.Constant):
            return e.value
        if isinstance(e, ast.Name):
            if e.id in env:
                return env[e.id]
            if e.id in self.enums:
                return ("enumcls", e.id)
            if e.id in self.models:
                return ("modelcls", e.id)
            if e.id in ("str", "len", "sorted", "set", "list", "type", "repr", "tuple", "isinstance", "map", "int", "float", "ascii"):
                return ("builtin", e.id)
            if e.id in self.module_names:
                return ("pymodule", self.module_names[e.id])
            raise Unsupported("name %s" % e.id)
        if isinstance(e, ast.Attribute):
            base = self.ev(e.value, env)
            if isinstance(base, tuple) and base and base[0] == "pymodule":
                return ("pyfunc", base[1] + "." + e.attr)
            if isinstance(base, tuple) and base and base[0] == "builtin" and base[1] == "str":
                return ("pyfunc", "str." + e.attr)
            if isinstance(base, tuple) and base and base[0] == "enumcls":
                if e.attr not in self.enums[base[1]]:
                    raise GenRaise("AttributeError", "%s has no member %s" % (base[1], e.attr))
                return EnumV(base[1], e.attr)
            return self.getattr_(base, e.attr)
        if isinstance(e, ast.JoinedStr):
            parts = []
            for v in e.values:
                if isinstance(v, ast.FormattedValue):
                    x = self.ev(v.value, env)
                    if v.format_spec is not None:
                        spec = self.ev(v.format_spec, env)
                        if not isinstance(spec, str):
                            raise Unsupported("symbolic format spec")
                        parts.append(format(x, spec) if isinstance(x, (int, float, str)) else Tmpl([Hole("format()", x, spec=spec)]))
                    else:
                        parts.append(self.fmt(x, v.conversion))
                else:
                    parts.append(v.value)
            return _norm(Tmpl(parts))
        if isinstance(e, ast.BinOp):
            return self.binop(e.op, self.ev(e.left, env), self.ev(e.right, env))
        if isinstance(e, ast.UnaryOp):
            v = self.ev(e.operand, env)
            if isinstance(e.op, ast.Not):
                return not self.truth(v, e.operand)
            if isinstance(e.op, ast.USub):
                if isinstance(v, (int, float)):
                    return -v
                return ("neg", v)
            raise Unsupported("unary op")
        if isinstance(e, ast.BoolOp):
            res = None
            for x in e.values:
                res = self.ev(x, env)
                t = self.truth(res, x)
                if isinstance(e.op, ast.And) and not t:
                    return res
                if isinstance(e.op, ast.Or) and t:
                    return res
            return res
        if isinstance(e, ast.IfExp):
            return self.ev(e.body if self.truth(self.ev(e.test, env), e.test) else e.orelse, env)
        if isinstance(e, ast.Compare):
            vals = [self.ev(e.left, env)] + [self.ev(c, env) for c in e.comparators]
            for op, a, b in zip(e.ops, vals, vals[1:]):
                if not self.cmp(op, a, b, e):
                    return False
            return True
        if isinstance(e, ast.List):
            return [self.ev(x, env) for x in e.elts]
        if isinstance(e, ast.Tuple):
            return tuple(self.ev(x, env) for x in e.elts)
        if isinstance(e, ast.ListComp) or isinstance(e, ast.GeneratorExp):
            return self.comp(e, env)
        if isinstance(e, ast.Call):
            return self.call(e, env)
        if isinstance(e, ast.Lambda):
            return ("lambda", e, dict(env))
        if isinstance(e, ast.Subscript):
            base = self.ev(e.value, env)
            if isinstance(base, (list, tuple, str)) and not isinstance(e.slice, ast.Slice):
                return base[self.ev(e.slice, env)]
            if isinstance(base, Sym) and base.kind == "production" and not isinstance(e.slice, ast.Slice) and getattr(self, "production_names", None) is not None:
                i = self.ev(e.slice, env)     # p[i]: the i-th right-hand-side symbol (sly indexes from 0)
                if isinstance(i, int) and -len(self.production_names) <= i < len(self.production_names):
                    return Sym(self.production_names[i], "attr")
                raise GenRaise("IndexError", "production index %r" % (i,))
            raise Unsupported("subscript of %r" % (base,))
        raise Unsupported("expression %s (line %d)" % (type(e).__name__, getattr(e, "lineno", 0)))

    def cmp(self, op, a, b, node):
        if isinstance(op, (ast.Is, ast.IsNot)):
            if b is None or a is None:
                x = a if b is None else b
                if isinstance(x, Sym) and x.kind == "any":
                    raise Undetermined("`%s`" % ast.unparse(node))
                r = x is None
            else:
                r = a is b
            return r if isinstance(op, ast.Is) else not r
        if isinstance(op, (ast.Eq, ast.NotEq)):
            r = self.eq(a, b)
            if r is None:
                raise Undetermined("`%s`" % ast.unparse(node))
            return r if isinstance(op, ast.Eq) else not r
        if isinstance(op, (ast.Gt, ast.GtE, ast.Lt, ast.LtE)) and all(isinstance(x, (int, float)) for x in (a, b)):
            return {ast.Gt: a > b, ast.GtE: a >= b, ast.Lt: a < b, ast.LtE: a <= b}[type(op)]
        raise Undetermined("`%s`" % ast.unparse(node))

    def comp(self, e, env):
        if len(e.generators) != 1 or e.generators[0].ifs:
            raise Unsupported("comprehension with filter / several loops")
        g = e.generators[0]
        it = self.ev(g.iter, env)
        if isinstance(it, (list, tuple)):
            out = []
            for x in it:
                env2 = dict(env)
                self.assign(g.target, x, env2)
                out.append(self.ev(e.elt, env2))
            return out
        if isinstance(it, SeqT) or (isinstance(it, Sym) and it.kind in ("tuple", "list", "groups")):
            seq = it if isinstance(it, SeqT) else SeqT("sym", it)
            elem = Sym("elem", "elem", of=seq)
            env2 = dict(env)
            self.assign(g.target, elem, env2)
            body = self.ev(e.elt, env2)
            return SeqT("map", body, elem, seq)
        raise Unsupported("comprehension over %r" % (it,))

    def binop(self, op, a, b):
        if isinstance(op, ast.Add):
            if isinstance(a, (str, Tmpl)) and isinstance(b, (str, Tmpl)):
                return _norm(Tmpl([a, b]))
            if isinstance(a, list) and isinstance(b, list):
                return a + b
            if isinstance(a, (list, SeqT)) and isinstance(b, (list, SeqT, Sym)):
                return SeqT("cat", a, b if not isinstance(b, Sym) else SeqT("sym", b))
            if isinstance(a, Depth) and isinstance(b, int):
                return a.plus(b)
            if isinstance(a, (int, float)) and isinstance(b, (int, float)):
                return a + b
            if isinstance(a, list) and isinstance(b, Sym):
                return ("cat", a, b)
        if isinstance(op, ast.Sub):
            if isinstance(a, Depth) and isinstance(b, int):
                return a.plus(-b)
            if isinstance(a, (int, float)) and isinstance(b, (int, float)):
                return a - b
        if isinstance(op, ast.Mult):
            if isinstance(a, str) and isinstance(b, Depth):
                return _norm(Tmpl([Hole("indent", None, unit=a, depth=b)]))
            if isinstance(a, str) and isinstance(b, int):
                return a * b
        if isinstance(op, ast.BitOr) and isinstance(a, (SetT, SetRef)) and isinstance(b, (SetT, SetRef)):
            return _set(a).union(_set(b))
        raise Unsupported("binary %s on %r, %r" % (type(op).__name__, a, b))

    def fmt(self, x, conversion=-1):
        """str(x) / format(x) as a template"""
        if conversion == 114:
            return self.repr_(x)
        if isinstance(x, Tmpl):
            return x
        if isinstance(x, str):
            return x
        if isinstance(x, bool) or x is None:
            return str(x)
        if isinstance(x, (int, float)):
            return str(x)
        if isinstance(x, Hole):
            return Tmpl([x])
        if isinstance(x, Sym):
            return Tmpl([Hole("str()", x)])
        if isinstance(x, (list, tuple)):
            # str(list) == '[' + ', '.join(repr(e)) + ']'
            inner = []
            for i, el in enumerate(x):
                if i:
                    inner.append(", ")
                inner.append(self.repr_(el))
            if isinstance(x, tuple):
                return Tmpl(["("] + inner + ([",)"] if len(x) == 1 else [")"]))
            return Tmpl(["["] + inner + ["]"])
        if isinstance(x, SeqT):
            return Tmpl([Hole("str(list)", x)])
        if isinstance(x, tuple) and x and x[0] == "neg":
            return Tmpl(["-", self.fmt(x[1])])
        raise Unsupported("formatting %r" % (x,))

    def repr_(self, x):
        if isinstance(x, str):
            return repr(x)
        if isinstance(x, (int, float)) or x is None:
            return repr(x)
        if isinstance(x, Sym):
            return Tmpl([Hole("repr()", x)])
        if isinstance(x, Tmpl):
            return Tmpl([Hole("repr(text)", x)])
        if isinstance(x, (list, tuple, SeqT)):
            return self.fmt(x)
        raise Unsupported("repr of %r" % (x,))

    def call(self, e, env):
        f = self.ev(e.func, env)
        args = [self.ev(a, env) for a in e.args]
        kwargs = {k.arg: self.ev(k.value, env) for k in e.keywords}
        if isinstance(f, tuple):
            tag = f[0]
            if tag == "bound":
                return self.dispatch(f[2], f[1], args, kwargs)
            if tag == "modelcls":
                if args:
                    raise Unsupported("positional model construction")
                return Node(f[1], **kwargs)
            if tag == "builtin":
                return self.builtin(f[1], args, kwargs)
            if tag == "strmethod":
                return self.strmethod(f[1], f[2], args)
            if tag == "symstrmethod":
                if not all(isinstance(a, (str, int)) for a in args) or kwargs:
                    raise Unsupported("str method %s with symbolic arguments" % f[2])
                return _norm(Tmpl([Hole("strcall", f[1], method=f[2], args=list(args))]))
            if tag == "pyfunc":
                # a pure library function applied to symbolic data: kept as a hole, evaluated by the REAL function on the
                # concrete interpretations of the parse oracle (whitelist in pyvc/tmpl.py)
                return _norm(Tmpl([Hole("pycall", args[0] if len(args) == 1 else tuple(args), fn=f[1], kwargs=kwargs)]))
            if tag == "setmethod":
                ref = f[1]
                if f[2] == "add":
                    ref.set(ref.get().union(SetT([("elem", args[0])])))
                    return None
                if f[2] == "update":
                    a = args[0]
                    ref.set(ref.get().union(_set(a) if isinstance(a, (SetT, SetRef)) else SetT([("of", a)])))
                    return None
                raise Unsupported("set method %s" % f[2])
        raise Unsupported("call of %r" % (f,))

    def dispatch(self, name, me, args, kwargs):
        self.calls.append((name, args))
        if name in self.contracts:
            return self.contracts[name](self, me, *args, **kwargs)
        return self.call_method(name, me, args, kwargs)

    def builtin(self, name, args, kwargs):
        if name == "str":
            return _norm(Tmpl([self.fmt(args[0])])) if not isinstance(args[0], str) else args[0]
        if name == "repr":
            return _norm(Tmpl([self.repr_(args[0])]))
        if name == "len":
            a = args[0]
            if isinstance(a, (str, list, tuple)):
                return len(a)
            if isinstance(a, Tmpl):
                if a.is_empty():
                    return 0
                if a.definitely_nonempty():
                    return NonZero()
            raise Undetermined("len(%r)" % (a,))
        if name == "sorted":
            a = args[0]
            if kwargs:
                # not the plain sorted(): order depends on the key function (ties fall back to the input order)
                src = a if isinstance(a, (SeqT, list)) else (SeqT("unordered", _set(a)) if isinstance(a, (SetT, SetRef)) else (SeqT("sym", a) if isinstance(a, Sym) else None))
                if src is None:
                    raise Unsupported("sorted(%r, key=...)" % (a,))
                return SeqT("sorted_by", src, kwargs)
            if isinstance(a, (SetT, SetRef)):
                return SeqT("sorted", _set(a))
            if isinstance(a, (list, tuple)) and all(isinstance(x, str) for x in a):
                return sorted(a)
            raise Unsupported("sorted(%r)" % (a,))
        if name == "set":
            if not args:
                return SetT()
            a = args[0]
            if isinstance(a, (SetT, SetRef)):
                return _set(a)
            return SetT([("of", a)])
        if name == "list":
            a = args[0]
            if isinstance(a, (list, tuple)):
                return list(a)
            if isinstance(a, SeqT):
                return a
            if isinstance(a, Sym) and a.kind in ("list", "tuple", "groups"):
                return SeqT("sym", a)
            if isinstance(a, (SetT, SetRef)):
                return SeqT("unordered", _set(a))     # iteration order of a set: havoc
            raise Unsupported("list(%r)" % (a,))
        if name == "type":
            return Sym("type", "any")
        raise Unsupported("builtin %s" % name)

    def strmethod(self, base, name, args):
        if name == "join":
            sep, seq = base, args[0]
            if not isinstance(sep, str):
                raise Unsupported("join on a template separator")
            if isinstance(seq, (SetT, SetRef)):
                seq = SeqT("unordered", _set(seq))
            if isinstance(seq, (list, tuple)):
                parts = []
                for i, x in enumerate(seq):
                    if i:
                        parts.append(sep)
                    if not isinstance(x, (str, Tmpl)):
                        raise GenRaise("TypeError", "join of non-str item %r" % (x,))
                    parts.append(x)
                return _norm(Tmpl(parts))
            if isinstance(seq, SeqT):
                return _norm(Tmpl([Hole("join", seq, sep=sep)]))
            raise Unsupported("join over %r" % (seq,))
        raise Unsupported("str method %s" % name)


class NonZero:
    """the length of a definitely non-empty template"""
    def __eq__(self, o):
        if o == 0:
            return False
        raise Undetermined("len == %r" % (o,))

    def __ne__(self, o):
        return not self.__eq__(o)

    def __gt__(self, o):
        if o == 0:
            return True
        raise Undetermined("len > %r" % (o,))


class SetRef:
    """reference to a set-valued attribute (so that .add / .update mutate the owner)"""
    def __init__(self, obj, attr):
        self.obj, self.attr = obj, attr

    def get(self):
        return self.obj.attrs[self.attr]

    def set(self, v):
        self.obj.attrs[self.attr] = v
        self.obj.log.append(("store", self.attr, v))


def _set(x):
    return x.get() if isinstance(x, SetRef) else x


def _norm(t):
    if isinstance(t, Tmpl) and len(t.parts) == 1 and isinstance(t.parts[0], str):
        return t.parts[0]
    if isinstance(t, Tmpl) and not t.parts:
        return ""
    return t


def _load(t):
    t2 = ast.parse(ast.unparse(t), mode="eval").body
    return ast.copy_location(t2, t)
