"""pyvc, loop-step refinement (E1-L): the driver loops of the vendored sly engine under contract.

A `while True:` driver loop cannot be summarised by a postcondition of the whole call (its result is a stream / a parse
that depends on unboundedly many iterations).  What CAN be stated and proved function-by-function is a *step contract*:

    for EVERY state s satisfying the loop's representation invariant,
        one execution of the REAL loop body from s  ==  Step_spec(s)
    (same continue / stop / raise outcome, same successor state, same emitted tokens, same calls with the same arguments)

plus: the invariant holds initially and is preserved.  The loop body is the real AST read from /repo on every run (the
enclosing generator / try-finally are dropped, see `dropped` in the evidence); `Step_spec` is written in z3 terms in
contracts/sly_lex.py / contracts/sly_yacc.py from sly's documented behaviour.  "tokenize(text) yields the stream obtained
by iterating Step_spec" then follows by induction on the number of iterations (paper step, stated in evidence).

Externals are the same uninterpreted summaries on both sides (re.Pattern.match, the user's token functions, error()),
so equality of the *arguments* they are called with is part of the proved statement.
"""
from __future__ import annotations

import ast

import z3

from .smt import (Exec, OutOfSubset, Path, Raise, NONE, PyNoneT, PyObj, PyList, PyTuple, QName, to_val, fresh,
                  I, B, S, Val, STR2VAL, INT2VAL, NONEVAL)


def ATTR(name):
    return z3.Function("attr:" + name, Val, Val)


DICT_HAS = z3.Function("dict_has", Val, Val, B)
DICT_GET = z3.Function("dict_get", Val, Val, Val)


class LoopExec(Exec):
    """Exec + generator `yield` (an emission effect) + method calls on opaque values dispatched by method name"""

    def ex_Yield(self, e, p):
        if e.value is None:
            raise OutOfSubset("bare yield")
        out = []
        for p2, v in self.expr(e.value, p):
            if isinstance(v, Raise):
                out.append((p2, v))
                continue
            p2.effects.append(("yield", snapshot_value(p2, v), e.lineno))
            out.append((p2, NONE))        # the value sent into the generator: next() sends None (A-gen)
        return out

    def call(self, f, pos, kw, p, node):
        if z3.is_expr(f) and f.sort() == Val and z3.is_app(f) and f.decl().name().startswith("attr:") and f.num_args() == 1:
            h = self.reg.val_methods.get(f.decl().name()[5:])
            if h is not None:
                return h(self, p, [f.arg(0)] + pos, kw, node)
        return Exec.call(self, f, pos, kw, p, node)


def snapshot_value(p, v):
    """observable content of a yielded / passed object: its attribute record"""
    if isinstance(v, PyObj):
        return ("obj", p.heap[v.oid]["cls"], dict(p.heap[v.oid]["attrs"]))
    return ("val", to_val(v))


def find_class_fn(tree, cls, fn):
    for n in tree.body:
        if isinstance(n, ast.ClassDef) and n.name == cls:
            found = None
            for m in n.body:
                if isinstance(m, ast.FunctionDef) and m.name == fn:
                    found = m
            return found
    return None


def find_driver_loop(fn):
    """the unique `while True:` loop of a driver function, at the top level of the function or directly inside a
    top-level try statement.  Returns (while_node, enclosing_try_or_None)"""
    cands = []
    for st in fn.body:
        if isinstance(st, ast.While):
            cands.append((st, None))
        elif isinstance(st, ast.Try):
            for s2 in st.body:
                if isinstance(s2, ast.While):
                    cands.append((s2, st))
    cands = [(w, t) for (w, t) in cands if isinstance(w.test, ast.Constant) and w.test.value is True and not w.orelse]
    if len(cands) != 1:
        raise OutOfSubset("expected exactly one `while True:` driver loop, found %d" % len(cands))
    return cands[0]


def nested_def(fn, name):
    for st in fn.body:
        if isinstance(st, ast.FunctionDef) and st.name == name:
            return st
    return None


def run_body(mod, reg, stmts, path, tier="quick"):
    ex = LoopExec(mod, reg, tier)
    return ex.run_block(list(stmts), path)


def model_text(m, terms):
    out = {}
    for k, v in terms.items():
        try:
            e = m.eval(v, model_completion=True)
            if z3.is_string_value(e):
                out[k] = e.as_string()
            elif z3.is_int_value(e):
                out[k] = e.as_long()
            else:
                out[k] = str(e)[:200]
        except Exception:
            out[k] = "?"
    return out
