"""Rendering of templates (pyvc.struct.Tmpl) under an *interpretation*: concrete values for the symbolic inputs,
placeholders for induction-hypothesis holes.  Used to build the `real` side of each parse-oracle case."""
from __future__ import annotations

from . import struct as S


class IdentObj:
    """run-time stand-in for the pydantic Identifier model (same repr)"""
    def __init__(self, name):
        self.name = name

    def __repr__(self):
        return "Identifier(name=%r)" % self.name

    def __eq__(self, o):
        return isinstance(o, IdentObj) and o.name == self.name

    def __hash__(self):
        return hash(("IdentObj", self.name))


class Interp:
    def __init__(self, values=None, base_depth=0, placeholder=None, spec_term=None):
        self.values = values or {}       # Sym.id / ('ids', node id) -> concrete value
        self.base = base_depth
        self.placeholder = placeholder   # callable(hole, interp) -> text for IH holes
        self.spec_term = spec_term       # callable(value) -> python source of D(term value)
        self.havoc = []

    def val(self, sym):
        if sym.id in self.values:
            return self.values[sym.id]
        raise KeyError("no interpretation for %r" % sym)


def eval_value(v, I, bind=None):
    """evaluate an executor value to a concrete Python value under I"""
    bind = bind or {}
    if isinstance(v, S.Sym):
        if v.id in bind:
            return bind[v.id]
        if v.kind == "field":
            base = eval_value(v.info["base"], I, bind)
            return base[v.info["field"]] if isinstance(base, dict) else getattr(base, v.info["field"])
        return I.val(v)
    if isinstance(v, (str, int, float)) or v is None:
        return v
    if isinstance(v, list):
        return [eval_value(x, I, bind) for x in v]
    if isinstance(v, tuple) and v and v[0] == "neg":
        return -eval_value(v[1], I, bind)
    if isinstance(v, tuple):
        return tuple(eval_value(x, I, bind) for x in v)
    if isinstance(v, S.SeqT):
        return eval_seq(v, I, bind)
    if isinstance(v, (S.SetT, S.SetRef)):
        return eval_set(S._set(v), I, bind)
    if isinstance(v, S.Tmpl):
        return render(v, I, bind)
    raise S.Unsupported("cannot evaluate %r" % (v,))


def eval_set(s, I, bind=None):
    out = set()
    for kind, payload in s.atoms:
        if kind == "of":
            seq = payload
            vals = eval_seq(seq, I, bind) if isinstance(seq, S.SeqT) else (I.val(seq) if isinstance(seq, S.Sym) else list(seq))
            out |= set(vals or [])
        elif kind == "ids":
            out |= set(I.values[("ids", payload.id)])
        elif kind == "elem":
            out.add(eval_value(payload, I, bind))
        else:
            raise S.Unsupported("set atom %s" % kind)
    return out


def eval_seq(q, I, bind=None):
    bind = bind or {}
    if isinstance(q, list):
        return [eval_value(x, I, bind) for x in q]
    if q.op == "sorted":
        return sorted(eval_set(q.args[0], I, bind))
    if q.op == "unordered":
        I.havoc.append("iteration order of a set")
        return sorted(eval_set(q.args[0], I, bind), reverse=True)    # an arbitrary order: deliberately NOT the sorted one
    if q.op == "sorted_by":
        vals = eval_seq(q.args[0], I, bind)
        kw = q.args[1]
        key = kw.get("key")
        keyfn = None
        if isinstance(key, tuple) and key and key[0] == "pyfunc" and key[1] in ("str.lower", "str.casefold", "str.upper", "builtins.len"):
            keyfn = {"str.lower": str.lower, "str.casefold": str.casefold, "str.upper": str.upper, "builtins.len": len}[key[1]]
        elif key is not None:
            raise S.Unsupported("sorted with a key function the oracle cannot evaluate")
        return sorted(vals, key=keyfn, reverse=bool(kw.get("reverse", False)))
    if q.op == "cat":
        return list(eval_seq(q.args[0], I, bind)) + list(eval_seq(q.args[1], I, bind))
    if q.op == "sym":
        return list(I.val(q.args[0]))
    if q.op == "map":
        body, elem, seq = q.args
        out = []
        for x in eval_seq(seq, I, bind):
            b2 = dict(bind)
            b2[elem.id] = x
            out.append(eval_value(body, I, b2) if not isinstance(body, S.Tmpl) else render(body, I, b2))
        return out
    raise S.Unsupported("sequence op %s" % q.op)


def render(t, I, bind=None):
    bind = bind or {}
    if isinstance(t, str):
        return t
    if not isinstance(t, S.Tmpl):
        t = S.Tmpl([t]) if isinstance(t, S.Hole) else t
    out = []
    for p in t.parts:
        if isinstance(p, str):
            out.append(p)
            continue
        k = p.kind
        if k == "indent":
            d = p.kw["depth"]
            n = d.absolute if d.absolute is not None else I.base + d.k
            out.append(p.kw["unit"] * n)
        elif k == "str()":
            out.append(str(eval_value(p.payload, I, bind)))
        elif k == "format()":
            out.append(format(eval_value(p.payload, I, bind), p.kw["spec"]))
        elif k == "repr()":
            out.append(repr(eval_value(p.payload, I, bind)))
        elif k == "repr(text)":
            out.append(repr(render(p.payload, I, bind)))
        elif k == "strcall":
            v = eval_value(p.payload, I, bind)
            if p.kw["method"] not in ("replace", "strip", "lstrip", "rstrip", "lower", "upper", "title", "casefold", "format", "encode", "zfill", "center", "ljust", "rjust", "capitalize", "swapcase", "expandtabs"):
                raise S.Unsupported("str method %s" % p.kw["method"])
            out.append(str(getattr(str(v), p.kw["method"])(*p.kw["args"])))
        elif k == "pycall":
            fn = p.kw["fn"]
            allowed = {"json.dumps": lambda: __import__("json").dumps, "builtins.repr": lambda: repr, "builtins.ascii": lambda: ascii, "shlex.quote": lambda: __import__("shlex").quote}
            if fn not in allowed:
                raise S.Unsupported("library call %s in the generator" % fn)
            v = eval_value(p.payload, I, bind)
            out.append(str(allowed[fn]()(v, **{k2: v2 for k2, v2 in (p.kw.get("kwargs") or {}).items() if isinstance(v2, (str, int, bool))})))
        elif k == "join":
            items = eval_seq(p.payload, I, bind)
            for it in items:
                if not isinstance(it, str):
                    raise S.GenRaise("TypeError", "sequence item: expected str instance, %s found" % type(it).__name__)
            out.append(p.kw["sep"].join(items))
        elif k == "str(list)":
            out.append(str(list(eval_seq(p.payload, I, bind))))
        else:
            # induction-hypothesis hole
            payload = p.payload
            if isinstance(payload, S.Sym) and (payload.id in bind or payload.id in I.values) and I.spec_term is not None and k == "Term":
                out.append(I.spec_term(eval_value(payload, I, bind)))
            else:
                out.append(I.placeholder(p, I))
    return "".join(out)
