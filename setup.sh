#!/bin/sh
# offline setup: nothing is fetched or built; verify the interpreters and solvers the checks need are present
set -e
cd "$(dirname "$0")"
python3-vt -c "import z3, cvc5; print('z3', z3.get_version_string(), 'cvc5', cvc5.__version__)"
/venv/bin/python -c "import sys; sys.path.insert(0, '/repo/src'); import pyab_experiment; print('product interpreter', sys.version.split()[0])"
test -x /usr/bin/cvc5 && echo "cvc5 cli ok"
mkdir -p evidence replays
