"""The driver loops of the vendored sly engine under step contracts (contracts/sly_lex.py, contracts/sly_yacc.py).

These obligations replace what used to be the *assumed* contracts of `Lexer.tokenize` and `Parser.parse`: every feasible
path of the real loop body is proved equal to the scanner step / LR driver step on all states satisfying the loop's
representation invariant, the invariant is proved to hold after the real prologue and to be preserved, and the state-switch
methods the token functions call (begin / push_state / pop_state) are proved to do what the loop summary assumes.
What stays assumed is listed in ASSUMPTIONS and copied into every evidence file that uses the link.

Replay: a refuted step obligation has a counter-model over uninterpreted tables, which is not an input of the program.
The replay therefore SEARCHES for a failing input with the native differentials (real tokenize vs Lex_ref; real parser vs
the reference parser on token-level mutants); when none is found the violation is still reported, with the solver's
counter-model, and ends with no-failing-input-found.
"""
from __future__ import annotations

from vcore import native

LEX_PROPS = ("C02", "C05", "C06", "C07", "C08", "C09", "C12", "C13", "C15")
GRAM_PROPS = ("C02", "C05", "C06", "C07", "C08", "C09", "C11", "C12", "C13", "C15", "C03", "C10")     # = links_gram.PROPS_ALL

ASSUMPTIONS = [
    "sly driver loops: proved per ITERATION (step contracts sly.lex.Lexer.tokenize/step#*, sly.yacc.Parser.parse/step#*); "
    "'the token stream / the parse is the iteration of the step from the initial state' is an induction on the number of "
    "iterations (paper step); termination is not verified",
    "A-gen: a generator resumes after `yield` with unchanged locals and consumers use next() (send() is never used)",
    "assumed contract of re.Pattern.match(text, pos): None or a match with pos <= end <= len(text), group() == text[pos:end], lastgroup a str; deterministic",
    "token functions / error() / grammar actions are deterministic functions of their observable arguments that may raise; token functions leave self.index >= 0; "
    "grammar actions neither return nor assign through the production object",
    "LR well-formedness of configurations (table lookups total, a reduction never pops the $end sentinel): follows from the tables being LALR(1) tables of the "
    "grammar, which the lr:* obligations validate against an independent construction; used as a hypothesis of the parse step contract",
    "sly's panic-mode error recovery is not covered: it is unreachable because ExperimentParser.error always raises (obligation gram:ExperimentParser.error/rejects)",
    "dropped by the extraction: the try/finally around the scanner loop (write-back of index/lineno on exit), the _mark/_accept/_reject closures, the position side tables of the parser",
]


def _lex_replay(o):
    from vcore.links_lex import _MiniCtx, bounded_lex     # noqa: F401
    texts = ["order_id", "x >= 1", "/* a */ b /* c */", "/* a\n*/*/", "'a' //x\n'b'", "1.5.3", "a @ b", "x/**/y", "\"a//b\"", "not  in", "é", "@", "a\n\nb @"]
    pool = ["i", "n", " ", "0", ".", ">", "=", "/", "*", '"', "\n", "a", "@"]
    try:
        r = native.one({"cmd": "lex_diff", "pool": pool, "maxlen": 3, "texts": texts}, timeout=1200)
    except Exception as e:      # noqa
        return {"reproduced": False, "note": "replay search could not run: %r" % (e,)}
    if r["failures"]:
        return {"reproduced": True, "input": r["failures"][0], "note": "found by the native differential real tokenize vs Lex_ref while searching for an input of the refuted step obligation"}
    return {"reproduced": False, "searched": r["evaluations"], "note": "no failing input among %d short texts; the solver's counter-model is over uninterpreted tables" % r["evaluations"]}


def _parse_replay(o):
    try:
        rs = native.parallel([{"cmd": "mutants_diff", "count": 40, "seed": 77000 + i} for i in range(4)], workers=4, timeout=1200)
        fails = [f for r in rs for fl in r["failures"].values() for f in fl] if isinstance(rs[0]["failures"], dict) else [f for r in rs for f in r["failures"]]
        if not fails:
            r2 = native.parallel([{"cmd": "pipeline_diff", "count": 60, "seed": 78000 + i} for i in range(4)], workers=4, timeout=1200)
            fails = [f for r in r2 for fl in (r["failures"].values() if isinstance(r["failures"], dict) else [r["failures"]]) for f in fl]
    except Exception as e:      # noqa
        return {"reproduced": False, "note": "replay search could not run: %r" % (e,)}
    if fails:
        return {"reproduced": True, "input": fails[0], "note": "found by the native differential real parser vs reference parser while searching for an input of the refuted step obligation"}
    return {"reproduced": False, "note": "no failing input found by the parser differentials; the solver's counter-model is over uninterpreted tables"}


def link_sly_lex_loop(ctx, mutate=None, tag=""):
    from contracts import sly_lex
    out = sly_lex.obligations(ctx.tier, mutate=mutate, tag=tag, props=LEX_PROPS)
    out += sly_lex.state_method_obligations(ctx.tier, mutate=mutate, tag=tag, props=LEX_PROPS)
    for o in out:
        o.replay = _lex_replay
    if not tag:
        ctx.notes.append("sly.lex: tokenize loop body, _set_state, begin/push_state/pop_state verified from the real AST")
    return out


def link_sly_parse_loop(ctx, mutate=None, tag=""):
    from contracts import sly_yacc
    out = sly_yacc.obligations(ctx.tier, mutate=mutate, tag=tag, props=GRAM_PROPS)
    for o in out:
        o.replay = _parse_replay
    return out


def loop_canary(name, which, old, new, expect):
    """in-memory mutation of the vendored engine's source (never written to /repo)"""
    from vcore.properties import Canary, src_mutator
    from vcore.obl import Obl, REFUTED

    def build(ctx):
        try:
            mut = src_mutator(old, new)
            link = link_sly_lex_loop if which == "lex" else link_sly_parse_loop
            return link(ctx, mutate=mut, tag="~" + name)
        except LookupError as e:
            ctx.notes.append("canary %s skipped: %s" % (name, e))
            return [Obl("canary:%s/not-applicable" % name, "sly", "canary", str(e), status=REFUTED, backend="n/a")]
    return Canary(name, build, expect + "|not-applicable")
