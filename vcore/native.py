"""Verifier-side access to the native helper (product interpreter) + replay helpers shared by contracts."""
from __future__ import annotations

import json
import math
import os
import re
import subprocess
import tempfile
import time
from fractions import Fraction

VERIF = os.path.dirname(os.path.dirname(os.path.abspath(__file__)))
PY = os.environ.get("VERIF_NATIVE_PY", "/venv/bin/python")
WATCHDOG_S = int(os.environ.get("VERIF_WATCHDOG_S", "150"))


def batch(reqs, timeout=600, env_extra=None):
    env = dict(os.environ)
    env["PYTHONDONTWRITEBYTECODE"] = "1"
    env.pop("PYTHONPATH", None)
    if env_extra:
        env.update(env_extra)
    if os.environ.get("VERIF_TRACE"):
        import sys
        print("[native %s] %s timeout=%s" % (time.strftime("%H:%M:%S"), [r.get("cmd") for r in reqs], timeout), file=sys.stderr, flush=True)
    # watchdog: harnesses journal their partial result after every failure they record and touch a heartbeat file at every
    # program (native/h_gen.py Budget).  A product call that never returns (e.g. compiled code on a structure that grows
    # from call to call) cannot be interrupted from inside; once failures are journalled AND the heartbeat has been silent
    # for WATCHDOG_S seconds the helper is killed and the journal is the result.  A helper that makes progress, or has
    # found nothing, is never cut short (only the overall timeout applies), so the watchdog cannot hide a violation.
    journal = None
    if len(reqs) == 1:
        fd, journal = tempfile.mkstemp(prefix="verif-journal-", suffix=".json")
        os.close(fd)
        os.unlink(journal)
        env["VERIF_JOURNAL"] = journal
    so, se = tempfile.TemporaryFile("w+"), tempfile.TemporaryFile("w+")
    proc = subprocess.Popen([PY, os.path.join(VERIF, "native", "helper.py")], stdin=subprocess.PIPE, stdout=so, stderr=se, text=True, env=env)
    try:
        proc.stdin.write(json.dumps(reqs))
        proc.stdin.close()
    except BrokenPipeError:
        pass
    t0 = time.monotonic()
    seen = None
    killed = False
    while proc.poll() is None:
        try:
            proc.wait(timeout=0.5)
            break
        except subprocess.TimeoutExpired:
            pass
        now = time.monotonic()
        if journal and os.path.exists(journal):
            try:
                beat = os.path.getmtime(journal + ".hb")
                seen = max(beat, os.path.getmtime(journal))
            except OSError:
                seen = None
            if seen is not None:
                seen = now - (time.time() - seen)          # file times are wall-clock: convert to the monotonic scale
        else:
            seen = None
        if (seen is not None and now - seen > WATCHDOG_S) or now - t0 > timeout:
            proc.kill()
            proc.wait()
            killed = True
            break
    try:
        if killed:
            if journal and os.path.exists(journal):
                with open(journal) as f:
                    res = json.load(f)
                res["watchdog"] = "helper killed: no progress for %d s (%d s in all); failures journalled so far are the result" % (time.monotonic() - (seen or t0), time.monotonic() - t0)
                return [res]
            raise subprocess.TimeoutExpired("native helper %s" % [r.get("cmd") for r in reqs], timeout)
        so.seek(0)
        se.seek(0)
        p = subprocess.CompletedProcess(proc.args, proc.returncode, so.read(), se.read())
    finally:
        so.close()
        se.close()
        if journal:
            for q in (journal, journal + ".tmp", journal + ".hb"):
                if os.path.exists(q):
                    os.unlink(q)
    # the product prints diagnostics on stdout (e.g. the lexer's "Illegal character"); the JSON answer is the last line
    out = p.stdout
    start = out.rfind("\n[{")
    payload = out[start + 1:] if start >= 0 else out[out.find("["):]
    res = json.loads(payload)
    for r in res:
        if not r["ok"]:
            raise RuntimeError("native helper error: %s" % r["error"][-3000:])
    return [r["result"] for r in res]


def one(req, **kw):
    return batch([req], **kw)[0]


def parallel(reqs, workers=8, **kw):
    """run each request in its own helper process, `workers` at a time (thorough tier: the bounded stand-ins are
    embarrassingly parallel over seeds)"""
    from concurrent.futures import ThreadPoolExecutor
    with ThreadPoolExecutor(max_workers=workers) as ex:
        return list(ex.map(lambda r: one(r, **kw), reqs))


def call(target, args=(), kwargs=None, patch_proba=None):
    return one({"cmd": "call", "target": target, "args": list(args), "kwargs": kwargs or {}, "patch_proba": patch_proba})


def z3str(s):
    """decode z3's string escapes (\\u{41}, \\x41) into a Python str"""
    if not isinstance(s, str):
        return s
    s = re.sub(r"\\u\{([0-9a-fA-F]+)\}", lambda m: chr(int(m.group(1), 16)), s)
    s = re.sub(r"\\x([0-9a-fA-F]{2})", lambda m: chr(int(m.group(1), 16)), s)
    return s


def frac(v):
    if isinstance(v, dict) and "num" in v:
        return Fraction(v["num"], v["den"])
    if isinstance(v, dict) and "approx" in v:
        return Fraction(v["approx"].rstrip("?"))
    return Fraction(v)


def enc_float(fr):
    return {"__frac__": [str(fr.numerator), str(fr.denominator)]}


def spec_pos(s):
    from spec import scheme
    return {"__float__": repr(scheme.pos(s))}


def spec_choice(n, weights, cum, u, both=False):
    from spec import scheme
    return scheme.spec_choice(n, weights, cum, u, both)


def replay_choice(obl):
    """replay a counter-model of a deterministic_choice obligation on the real function"""
    m = obl.model or {}
    shape = obl.meta.get("shape", "")
    sized = [len(m[k]) for k in ("population", "weights", "cum_weights") if isinstance(m.get(k), list)]
    n = int(m["n"]) if "n" in m else (sized[0] if sized else 1)       # the model's population length (its weights may differ in number)
    n = max(1, min(n, 64))
    pop = ["g%d" % i for i in range(n)]
    ws = [float(frac(x)) for x in m["weights"]] if "weights" in m and "w=list" in shape else None
    cw = [float(frac(x)) for x in m["cum_weights"]] if "cum_weights" in m and "cw=list" in shape else None
    u = frac(m.get("u", 0))
    if not (0 <= u < 1):
        u = Fraction(0)
    kwargs = {}
    if cw is not None:
        kwargs["cum_weights"] = cw
    idg = "id=str" in shape
    args = ["unit" if idg else None, pop] + ([ws] if ws is not None else [])
    res = call("pyab_experiment.binning.binning:deterministic_choice", args, kwargs, patch_proba=enc_float(u) if idg else None)
    out = {"input": {"population": pop, "weights": ws, "cum_weights": cw, "hash_position": str(u), "id_given": idg},
           "observed": res}
    if not idg:
        out["expected"] = "delegation to random.choices"
        out["reproduced"] = False
        return out
    exp = spec_choice(n, ws, cw, u, both=(ws is not None and cw is not None))
    out["expected"] = exp
    if exp["outcome"] == "raise":
        rep = not (res.get("outcome") == "raise" and res.get("exc") == exp["exc"])
    else:
        rep = not (res.get("outcome") == "return" and res.get("value") == pop[exp["index"]])
    if not res.get("args_unmodified", True):
        rep = True
        out["note"] = "arguments were modified by the call"
    out["reproduced"] = rep
    if not rep:
        # guided search around the model (A-real artefacts: the model's rationals may not be floats)
        s = one({"cmd": "choice_diff", "max_n": 4, "max_w": 3, "limit": 1})
        if s["failures"]:
            out["search_witness"] = s["failures"][0]
            out["reproduced"] = True
            out["note"] = "model did not replay as-is; bounded search around it found this failing input"
    return out


def replay_probit(obl):
    m = obl.model or {}
    a = m.get("alpha", m.get("alpha1"))
    pts = []
    out = {"input": {"alpha": str(a)}}
    res = one({"cmd": "ci_grid", "ns": [], "ps": [], "confs": [], "limit": 3})
    # the grid in ci_grid covers the z-score clauses; add the model's alpha explicitly
    try:
        af = float(frac(a))
        if 0 < af < 1:
            from spec import stats_ref as ref
            r = call("pyab_experiment.utils.stats:probit", [enc_float(frac(a))])
            exp = ref.z_closed_form(af)
            out["observed"] = r
            out["expected"] = exp
            if not (r.get("outcome") == "return" and ref.close(float(r["value"]["__float__"]), exp, rel=1e-12)):
                out["reproduced"] = True
                return out
    except Exception as e:   # noqa
        out["note"] = "model value not replayable: %r" % (e,)
    out["reproduced"] = bool(res["failures"])
    if res["failures"]:
        out["search_witness"] = res["failures"][0]
        out["note"] = "counter-model did not replay as-is (real-arithmetic artefact); the bounded grid found this failing input"
    return out


def replay_ci(obl):
    m = obl.model or {}
    pts = []
    try:
        n = int(m.get("n", 10))
        p = float(frac(m.get("p", 0.5)))
        cf = float(frac(m.get("confidence", 0.95)))
        if 0 < cf < 1 and 0 <= p <= 1 and n >= 1:
            meths = ["agresti-coull", "wald"]
            mm = z3str(m.get("method", ""))
            if "NotImplementedError" in obl.id and isinstance(mm, str):
                meths = [mm]
            pts = [{"n": n, "p": p, "confidence": cf, "method": x} for x in meths]
    except Exception:   # noqa
        pts = []
    res = one({"cmd": "ci_grid", "ns": [], "ps": [], "confs": [], "points": pts, "limit": 3})
    out = {"input": pts, "observed": res["failures"][:1], "reproduced": bool(res["failures"])}
    if not res["failures"]:
        res = one({"cmd": "ci_grid", "limit": 3})
        out["reproduced"] = bool(res["failures"])
        if res["failures"]:
            out["search_witness"] = res["failures"][0]
            out["note"] = "counter-model did not replay as-is; the bounded grid found this failing input"
    return out


def replay_lifecycle(obl):
    """a failed recompile/__init__ obligation is replayed by the bounded history exploration on the real evaluator"""
    r = one({"cmd": "lifecycle_diff", "maxlen": 3, "limit": 1})
    out = {"input": None, "reproduced": bool(r["failures"]), "bound": r["bound"]}
    if r["failures"]:
        out["input"] = r["failures"][0]
        out["note"] = "history found by bounded exploration of operation sequences on the real evaluator"
    return out
