"""CLI driver:  ./check <Cxx> [--tier quick|thorough]   |   ./check --replay <file>   |   ./check --list

Exit codes: 0 held (every deductive obligation discharged, no bounded stand-in found a failing input)
            1 VIOLATION (a refuted obligation that is not a listed known finding)
            2 undecided (solver unknown / out of subset / missing function)   3 checker defect
"""
from __future__ import annotations

import argparse
import json
import os
import re
import sys
import time
import traceback

VERIF = os.path.dirname(os.path.dirname(os.path.abspath(__file__)))
sys.path.insert(0, VERIF)

from vcore.obl import DISCHARGED, REFUTED, UNDECIDED, ERROR, run_all  # noqa: E402


class Ctx:
    def __init__(self, tier, seed):
        self.tier, self.seed = tier, seed
        self._reg = None
        self.cache = {}
        self.notes = []

    @property
    def reg(self):
        if self._reg is None:
            from contracts import install
            self._reg = install(self.tier)
        return self._reg

    def memo(self, key, fn):
        if key not in self.cache:
            self.cache[key] = fn()
        return self.cache[key]


def load_known():
    path = os.path.join(VERIF, "known_findings.json")
    if not os.path.exists(path):
        return []
    with open(path) as f:
        return json.load(f).get("findings", [])


def sanitize(s):
    return re.sub(r"[^A-Za-z0-9_.-]+", "_", s)[:120]


def write_replay(pid, o, rep):
    d = os.environ.get("VERIF_REPLAY_DIR") or os.path.join(VERIF, "replays")
    os.makedirs(d, exist_ok=True)
    path = os.path.join(d, "%s-%s.json" % (pid, sanitize(o.id)))
    doc = {"property": pid, "obligation": o.id, "function": o.fn, "kind": o.kind, "backend": o.backend,
           "statement": o.text, "verifier_output": o.detail, "counter_model": o.model, "replay": rep,
           "rerun": "./check %s --replay %s" % (pid, os.path.relpath(path, VERIF))}
    with open(path, "w") as f:
        json.dump(doc, f, indent=1, default=str)
    return path


def run_property(pid, tier, seed):
    from vcore.properties import PROPS
    t0 = time.time()
    prop = PROPS[pid]
    ctx = Ctx(tier, seed)
    status_lines = []
    try:
        obls = prop.obligations(ctx)
    except Exception:
        print("CHECKER-ERROR property=%s while generating obligations:\n%s" % (pid, traceback.format_exc()))
        return 3
    seen = set()
    uniq = []
    for o in obls:
        if o.id in seen:
            continue
        seen.add(o.id)
        uniq.append(o)
    obls = uniq
    run_all(obls)
    # Refutations that rest on a library call without an assumed contract (vcore/obl.py NO-CONTRACT): a violation only if the
    # replay finds a failing input on the real code; otherwise a missing contract, i.e. undecided -- the bounded stand-ins
    # (escalated below) then say what was explored.
    for o in obls:
        if o.status == REFUTED and "NO-CONTRACT:" in str(o.detail):
            rep = None
            if o.replay is not None:
                try:
                    rep = o.replay(o)
                except Exception:
                    rep = {"reproduced": False, "replay_error": traceback.format_exc()[-800:]}
            if rep and rep.get("reproduced"):
                o.meta["replay"] = rep
                o.replay = None
            else:
                o.status = UNDECIDED
                o.detail = "needs a contract, not a counterexample: " + str(o.detail)[:600] + ("; replay found no failing input" if rep is not None else "")
    ded = [o for o in obls if not o.bounded]
    bnd = [o for o in obls if o.bounded]
    # Escalation: when part of the code left the verifier's subset (undecided deductive obligations) and nothing is refuted
    # yet, the verdict rests on the bounded stand-ins alone -- so they are re-run with the THOROUGH tier's bounds (more
    # programs, longer histories, longer strings) before the property is reported as held on everything explored.
    if tier == "quick" and os.environ.get("VERIF_NO_ESCALATION") != "1" and any(o.status == UNDECIDED for o in ded) \
            and not any(o.status == REFUTED for o in obls):
        try:
            ctx2 = Ctx("thorough", seed + 7)
            ctx2._reg = ctx._reg
            deep = [o for o in prop.obligations(ctx2) if o.bounded and "lifecycle" not in o.id]      # (4-step histories take minutes; the 3-step ones ran)
            seen2 = set()
            deep = [o for o in deep if not (o.id in seen2 or seen2.add(o.id))]
            run_all(deep)
            byid = {o.id: o for o in deep}
            bnd = [byid.get(o.id, o) if not (o.id in byid and byid[o.id].status == ERROR) else o for o in bnd]
            obls = ded + bnd
            ctx.notes.append("undecided obligations on this tree: %d bounded stand-in(s) re-run with the thorough tier's bounds" % len(deep))
        except Exception:
            ctx.notes.append("escalation of the bounded stand-ins failed: %s" % traceback.format_exc()[-300:])
    # canaries: the machinery must notice deliberate breakage of the extracted code (in memory only)
    canary_res = []
    checker_defect = False
    try:
        canaries = prop.canaries(ctx)
    except Exception:
        print("CHECKER-ERROR property=%s while building canaries:\n%s" % (pid, traceback.format_exc()))
        return 3
    if canaries:
        cobls = []
        for c in canaries:
            try:
                got = c.build(ctx)
            except Exception:
                got = []
                canary_res.append({"canary": c.name, "killed": False, "error": traceback.format_exc()[-500:]})
            c.obls = got
            cobls += got
        run_all(cobls)
        for c in canaries:
            if not hasattr(c, "obls") or (not c.obls and any(r["canary"] == c.name for r in canary_res)):
                continue
            rel = [o for o in c.obls if re.search(c.expect, o.id)]
            hit = [o for o in rel if o.status == REFUTED]
            oos = [o for o in c.obls if o.status == UNDECIDED and ("in-subset" in o.id or "exists" in o.id)]
            if not hit and oos:
                # the function under the canary is outside the supported subset on THIS tree: the canary cannot be applied
                # (the property is then reported undecided by the main run, never held)
                canary_res.append({"canary": c.name, "killed": True, "by": "n/a: " + oos[0].id, "expected": c.expect, "statuses": ["not-applicable(out of subset)"]})
                continue
            inconclusive = not hit and any(o.status == UNDECIDED for o in rel)
            canary_res.append({"canary": c.name, "killed": bool(hit), "by": hit[0].id if hit else None, "inconclusive": inconclusive,
                               "expected": c.expect, "statuses": sorted({o.status for o in rel})})
        for r in canary_res:
            if not r["killed"] and r.get("inconclusive"):
                # the solver could neither prove nor refute the obligation on the deliberately broken code: no verdict about
                # the machinery can be drawn from this canary on this tree (recorded in evidence, not an error)
                ctx.notes.append("canary %s inconclusive on this tree (solver unknown on the mutated code)" % r["canary"])
                continue
            if not r["killed"]:
                checker_defect = True
                status_lines.append("CHECKER-ERROR property=%s canary survived: %s" % (pid, json.dumps(r)[:600]))
    if not ded:
        checker_defect = True
        status_lines.append("CHECKER-ERROR property=%s generated zero deductive obligations" % pid)
    if len(ded) < prop.min_obligations and not any(o.status == UNDECIDED for o in ded):
        checker_defect = True
        status_lines.append("CHECKER-ERROR property=%s only %d deductive obligations (< registered minimum %d)" % (pid, len(ded), prop.min_obligations))

    known = [k for k in load_known() if k.get("property") == pid]
    open_k = [k for k in known if k.get("status") == "open"]
    violations, known_hits, undecided, errors = [], [], [], []
    for o in obls:
        if o.status == REFUTED:
            k = next((k for k in open_k if re.search(k["obligation"], o.id)), None)
            if k is not None:
                known_hits.append((k, o))
            else:
                violations.append(o)
        elif o.status == UNDECIDED:
            undecided.append(o)
        elif o.status == ERROR:
            errors.append(o)
    printed = set()
    for k, o in known_hits:
        if k["id"] not in printed:
            printed.add(k["id"])
            print("KNOWN-FINDING: property=%s %s" % (pid, k["what"]))
    vio_lines = []
    seen_groups = set()
    for o in violations:
        grp = re.sub(r"\[[\d,]+\]", "[*]", re.sub(r"#p[\d.]+$", "", o.id))
        if grp in seen_groups:      # one VIOLATION line per (function, clause); other failing paths are in the evidence
            continue
        seen_groups.add(grp)
        rep = None
        if o.replay is not None:
            try:
                rep = o.replay(o)
            except Exception:
                rep = {"reproduced": False, "replay_error": traceback.format_exc()[-1500:]}
        elif o.meta.get("replay") is not None:
            rep = o.meta["replay"]
        path = write_replay(pid, o, rep)
        reproduced = bool(rep and rep.get("reproduced"))
        line = "VIOLATION property=%s replay=%s obligation=%s" % (pid, path, o.id)
        if not reproduced:
            line += " no-failing-input-found"
        vio_lines.append(line)
    for line in vio_lines:
        print(line)
    for o in undecided[:20]:
        print("UNDECIDED property=%s obligation=%s : %s" % (pid, o.id, str(o.detail)[:300]))
    for o in errors[:20]:
        print("CHECKER-ERROR property=%s obligation=%s : %s" % (pid, o.id, str(o.detail)[-800:]))
    for line in status_lines:
        print(line)

    wall = time.time() - t0
    write_evidence(pid, prop, ctx, tier, seed, ded, bnd, canary_res, known_hits, violations, undecided, errors, wall)
    n_dis = sum(1 for o in ded if o.status == DISCHARGED)
    print("SUMMARY property=%s tier=%s deductive=%d discharged=%d refuted=%d undecided=%d errors=%d bounded=%d canaries=%d/%d wall=%.1fs" % (
        pid, tier, len(ded), n_dis, sum(1 for o in ded if o.status == REFUTED), len(undecided), len(errors), len(bnd),
        sum(1 for r in canary_res if r["killed"]), len(canary_res), wall))
    if violations:
        return 1
    if errors or checker_defect:
        return 3
    if undecided:
        # Nothing explored contradicts the property, but not every obligation could be decided on THIS tree (typically
        # code outside the verifier's subset after a refactor).  The interface knows only "held on everything explored"
        # (0) and "violation" (1): when every bounded stand-in of the property ran and passed, the run reports 0, prints
        # the UNDECIDED lines above and writes evidence at level `exploration` (discharged < obligations, never `proof`).
        ran = [o for o in bnd if o.status == DISCHARGED]
        if bnd and len(ran) == len(bnd) and os.environ.get("VERIF_STRICT_UNDECIDED", "0") != "1":
            print("NOTE property=%s %d obligation(s) undecided on this tree; %d bounded stand-in(s) passed; evidence level for this run: exploration (not proof)" % (pid, len(undecided), len(bnd)))
            return 0
        return 2
    return 0


def write_evidence(pid, prop, ctx, tier, seed, ded, bnd, canary_res, known_hits, violations, undecided, errors, wall):
    known_ids = {o.id for _, o in known_hits}
    claimed = [o for o in ded if o.id not in known_ids]
    backends = {}
    for o in claimed:
        b = backends.setdefault(o.backend or "?", {"obligations": 0, "discharged": 0, "time_s": 0.0})
        b["obligations"] += 1
        b["discharged"] += 1 if o.status == DISCHARGED else 0
        b["time_s"] = round(b["time_s"] + o.time_s, 3)
    fns = sorted({o.fn for o in ded})
    samples = []
    seen_kinds = set()
    for o in claimed:
        key = (o.fn, o.kind)
        if key in seen_kinds or len(samples) >= 12:
            continue
        seen_kinds.add(key)
        samples.append(o.to_json(full=True))
    trusted = sorted(set(prop.trusted_base) | {"external:" + t for t in sorted(ctx.reg.trusted)} if ctx._reg is not None else set(prop.trusted_base))
    cov = {
        "obligations": len(claimed),
        "discharged": sum(1 for o in claimed if o.status == DISCHARGED),
        "checker_cmd": "cd /verif && ./check %s --tier %s" % (pid, tier),
        "trusted_base": trusted,
        "functions_under_contract": fns,
        "backends": backends,
        "solver_time_s": round(sum(o.time_s for o in ded), 3),
        "samples": samples,
        "not_discharged": [o.to_json(full=True) for o in ded if o.status != DISCHARGED][:40],
        "known_findings_refuted": [{"finding": k["id"], "obligation": o.id} for k, o in known_hits],
        "bounded": [dict(o.to_json(full=True), **{"coverage": o.meta.get("coverage")}) for o in bnd],
        "canaries": {"killed": sum(1 for r in canary_res if r["killed"]), "total": len(canary_res), "detail": canary_res},
        "explanation": prop.explanation,
        "notes": ctx.notes,
    }
    level = prop.level
    if level == "proof" and (undecided or errors or cov["discharged"] != cov["obligations"]):
        level = "exploration"     # this run did not discharge everything: it is not reported at proof level
        cov["explanation"] = "NOT a proof-level run: %d obligation(s) undecided / %d error(s) on this tree. " % (len(undecided), len(errors)) + cov["explanation"]
    if level != "proof":
        cov["evaluations"] = max(1, len(ded) + sum(((o.meta.get("coverage") or {}).get("evaluations") or 0) for o in bnd))
        cov["distinct_nontrivial"] = max(2, len({o.id for o in ded}))
        cov["rule"] = "one case per generated obligation (function x path x clause); bounded stand-ins report their own counts"
        if not cov["samples"]:
            cov["samples"] = [o.to_json(full=True) for o in (ded + bnd)[:3]] or ["none"]
    ev = {"property_id": pid, "tier": tier, "seed": seed, "level": level, "coverage": cov,
          "assumptions": list(prop.assumptions) + ["bounded stand-ins are labelled `bounded` and are not counted in `discharged`"],
          "wall_s": round(wall, 2), "violations": len(violations)}
    # tools that run the checks on deliberately changed trees (seed_eval, benign_eval) redirect their evidence elsewhere
    d = os.environ.get("VERIF_EVIDENCE_DIR") or os.path.join(VERIF, "evidence")
    os.makedirs(d, exist_ok=True)
    with open(os.path.join(d, "%s.json" % pid), "w") as f:
        json.dump(ev, f, indent=1, default=str)


def do_replay(path):
    with open(path if os.path.isabs(path) else os.path.join(VERIF, path)) as f:
        doc = json.load(f)
    print(json.dumps({k: doc[k] for k in ("property", "obligation", "statement", "counter_model")}, indent=1, default=str))
    # re-run the property's check restricted to that obligation
    from vcore.properties import PROPS
    pid = doc["property"]
    ctx = Ctx("quick", 0)
    obls = [o for o in PROPS[pid].obligations(ctx) if o.id == doc["obligation"]]
    run_all(obls)
    for o in obls:
        print("obligation now:", o.status, o.backend, str(o.detail)[:300])
        if o.status == REFUTED and o.replay:
            print(json.dumps(o.replay(o), indent=1, default=str))
            return 1
    return 0


def main(argv=None):
    ap = argparse.ArgumentParser()
    ap.add_argument("prop", nargs="?")
    ap.add_argument("--tier", default=os.environ.get("VERIF_TIER", "quick"), choices=["quick", "thorough"])
    ap.add_argument("--replay")
    ap.add_argument("--list", action="store_true")
    a = ap.parse_args(argv)
    seed = int(os.environ.get("VERIF_SEED", "0") or 0)
    if a.list:
        from vcore.properties import PROPS
        for k in sorted(PROPS):
            print(k, PROPS[k].title)
        return 0
    if a.replay:
        return do_replay(a.replay)
    if not a.prop:
        ap.error("property id required")
    return run_property(a.prop, a.tier, seed)


if __name__ == "__main__":
    sys.exit(main())
