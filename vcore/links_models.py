"""Model link (C05, C07): the pydantic models keep the lexer's values -- decided by case analysis over abstract value
kinds in the ASSUMED pydantic-v1 validation model (spec/pydantic_model.py), instantiated with the REAL annotations and
Config of syntax_tree.py; the model itself is cross-checked against the real classes on every run (bounded)."""
from __future__ import annotations

from pyvc.contract import load_module
from spec import pydantic_model as PM
from vcore import native
from vcore.obl import Obl, DISCHARGED, REFUTED, UNDECIDED, ERROR

MOD = "pyab_experiment.data_structures.syntax_tree"
# (class, field) -> kinds the grammar actions can put there, with the outcome the properties demand
DEMANDS = {
    ("TerminalPredicate", "left_term"): ["int", "int>2^53", "int>1e308", "float", "str-numeric", "str-plain", "list", "list-of-pairs", "Identifier"],
    ("TerminalPredicate", "right_term"): ["int", "int>2^53", "int>1e308", "float", "str-numeric", "str-plain", "list", "list-of-pairs", "Identifier"],
    ("ExperimentGroup", "group_definition"): ["int", "int>2^53", "int>1e308", "float", "str-numeric", "str-plain"],
    ("ExperimentGroup", "group_weight"): ["int", "float"],
    ("Identifier", "name"): ["str-numeric", "str-plain"],
}


def enc(v):
    if isinstance(v, int) and not isinstance(v, bool) and abs(v) >= 2 ** 53:
        return {"__int__": str(v)}
    return v


def _dsl(v):
    from spec import dsl_ref
    if isinstance(v, (list, tuple)):
        return "(" + ", ".join(_dsl(x) for x in v) + ")"
    return dsl_ref.lit(v)


def model_replay(o):
    # first: the exemplars of the refuted case as literals of a concrete program, through the whole pipeline
    progs = []
    for ex in (o.model or {}).get("exemplars", []):
        if isinstance(ex, dict) and "__int__" in ex:
            ex = int(ex["__int__"])
        if isinstance(ex, str) and ex.startswith("<Identifier"):
            continue
        try:
            lit = _dsl(ex)
        except Exception:   # noqa
            continue
        progs.append('def replay { splitters: uid if x == %s { return "hit" weighted 1 } else if %s != y { return "hit2" weighted 1 } else { return "miss" weighted 1 } }' % (lit, lit))
    if progs:
        r0 = native.one({"cmd": "pipeline_diff", "count": 0, "seed": 11, "limit": 1, "programs": progs, "envs": 8})
        f0 = next((v for k, v in r0["failures"].items() if v), None)
        if f0:
            return {"input": f0[0], "reproduced": True, "counter_kind": (o.model or {}),
                    "note": "the exemplar values of the refuted case as literals of a concrete program: the real pipeline disagrees with the reference semantics"}
    r = native.one({"cmd": "pipeline_diff", "count": 150, "seed": 11, "limit": 1})
    f = r["failures"].get("ast") or r["failures"].get("literal") or r["failures"].get("routing")
    return {"input": f[0] if f else None, "reproduced": bool(f), "counter_kind": (o.model or {}),
            "note": "bounded differential on generated programs: literal reaches the AST / run time with another value or type"}


def validator_obligations(mod, tag):
    """custom pydantic validators run AFTER the Union coercion the model describes: each must hand its argument back unchanged and
    never raise (proved on the real body with pyvc); Config options that rewrite values are refused"""
    import ast
    import z3
    from pyvc.smt import Exec, Path, OutOfSubset, Val
    from pyvc.registry import Registry
    out = []
    allp = ("C02", "C03", "C05", "C07", "C10", "C12", "C13", "C15")
    REWRITING_CONFIG = ("anystr_strip_whitespace", "anystr_lower", "anystr_upper", "min_anystr_length", "max_anystr_length", "validate_assignment", "allow_mutation",
                        "str_strip_whitespace", "str_to_lower", "str_to_upper", "extra", "json_loads", "alias_generator", "fields", "allow_population_by_field_name")
    for n in mod.tree.body:
        if not isinstance(n, ast.ClassDef):
            continue
        for st in n.body:
            if isinstance(st, ast.ClassDef) and st.name == "Config":
                for s2 in st.body:
                    for t in (s2.targets if isinstance(s2, ast.Assign) else [getattr(s2, "target", None)]):
                        if isinstance(t, ast.Name) and t.id in REWRITING_CONFIG:
                            out.append(Obl("model%s:%s.Config/%s-unset" % (tag, n.name, t.id), "%s:%s" % (MOD, n.name), "model",
                                           "the model's Config sets no option that rewrites or rejects field values (%s)" % t.id, status=REFUTED, backend="extract",
                                           detail=ast.unparse(s2), props=allp, model={"kind": "config", "exemplars": []}, replay=model_replay))
            if not isinstance(st, ast.FunctionDef):
                continue
            decos = [ast.unparse(d.func if isinstance(d, ast.Call) else d) for d in st.decorator_list]
            if not any(d.split(".")[-1] in ("validator", "root_validator", "field_validator", "model_validator") for d in decos):
                continue
            oid = "model%s:%s.%s/validator-returns-its-argument" % (tag, n.name, st.name)
            text = "validator %s.%s hands the (already validated) value back unchanged and never raises" % (n.name, st.name)
            params = [a.arg for a in st.args.args]
            try:
                p = Path()
                v = z3.Const("v", Val)
                for i, name in enumerate(params):
                    p.env[name] = v if i == 1 else z3.Const("arg:" + name, Val)
                if len(params) < 2:
                    raise OutOfSubset("validator without a value parameter")
                ex = Exec(mod, Registry(), "quick")
                outs = ex.run(st, p)
                bad = []
                for (pp, kind, val) in outs:
                    if kind == "raise":
                        bad.append("raises %s (%s)" % (val.exc, val.info))
                    elif not (z3.is_expr(val) and val.eq(v)):
                        bad.append("returns %s" % (str(val)[:80],))
                out.append(Obl(oid, "%s:%s.%s" % (MOD, n.name, st.name), "model", text, status=DISCHARGED if not bad else REFUTED, backend="pyvc",
                               detail="; ".join(bad[:4]), props=allp, model={"kind": "validator", "paths": bad[:4], "exemplars": []} if bad else None, replay=model_replay))
            except OutOfSubset as e:
                out.append(Obl(oid, "%s:%s.%s" % (MOD, n.name, st.name), "model", text, status=UNDECIDED, backend="pyvc", detail="out of subset: %s" % e, props=allp))
    return out


def link_models(ctx, mutate=None, tag=""):
    out = []
    mod = load_module(MOD, mutate)
    out.extend(validator_obligations(mod, tag))
    models = PM.read_models(mod.tree)
    cases = []
    for (cls, field), kinds in DEMANDS.items():
        fn = "%s:%s.%s" % (MOD, cls, field)
        if cls not in models or field not in models[cls]["fields"]:
            out.append(Obl("model%s:%s.%s/declared" % (tag, cls, field), fn, "model", "field exists", status=UNDECIDED, backend="extract", detail="missing", props=("C05", "C07")))
            continue
        mem, smart = models[cls]["fields"][field], models[cls]["smart_union"]
        for kind in kinds:
            pred = PM.validate(mem, smart, kind)
            if (cls, field) == ("ExperimentGroup", "group_weight"):
                ok = pred[0] == "same" or (pred[0] == "coerced" and pred[1] == "float")   # weights are numbers: value matters, not type
                text = "a weight literal of kind %s keeps its numeric value" % kind
            elif kind in ("list", "list-of-pairs"):
                ok = pred[0] in ("same", "container")
                text = "a tuple term keeps its items (value and type of each member)"
            else:
                ok = pred[0] == "same"
                text = "a %s value stored in %s.%s keeps its exact value and type" % (kind, cls, field)
            props = ("C05", "C02", "C07") if kind != "int>1e308" else ("C05", "C07")
            if field == "group_weight":
                props = props + ("C03", "C10")
            if field == "group_definition":
                props = props + ("C03", "C14")
            out.append(Obl("model%s:%s.%s/%s" % (tag, cls, field, kind), fn, "model", text, status=DISCHARGED if ok else REFUTED, backend="case-analysis(pydantic-model)",
                           detail="Union%s smart_union=%s => %s" % (mem, smart, pred), props=props,
                           model={"kind": kind, "exemplars": [enc(x) for x in PM.EXEMPLARS[kind]], "prediction": list(pred)}, replay=model_replay))
            for ex in PM.EXEMPLARS[kind]:
                if field == "group_weight" and isinstance(ex, (int, float)) and ex < 0:
                    continue      # weights are non-negative by the grammar (no MINUS in `weight`)
                cases.append({"cls": cls, "field": field, "kind": kind, "value": enc(ex), "pred": pred})
    if mutate is None:
        # cross-check of the ASSUMED model against the real classes (bounded; never counted as proved)
        try:
            res = native.one({"cmd": "model_probe", "cases": cases})
            bad = []
            for c, r in zip(cases, res):
                p = c["pred"]
                agree = (p[0] == r["outcome"]) or (p[0] == "coerced" and r["outcome"] == "coerced" and r["type"] == p[1]) or \
                        (p[0] == "container" and r["outcome"] == "container" and r["items_same"]) or (p[0] == "same" and r["outcome"] == "container" and r.get("items_same"))
                if c["kind"] == "str-numeric" and p[0] == "coerced" and r["outcome"] in ("same", "coerced"):
                    agree = True     # not every exemplar is accepted by the coercing validator (e.g. int("1e5") fails): the kind-level claim is "may be coerced"
                if not agree:
                    bad.append({"case": {k: c[k] for k in ("cls", "field", "kind", "value")}, "model": list(p), "real": r})
            out.append(Obl("xcheck:models/pydantic-model-vs-real-classes", MOD, "xcheck", "the assumed pydantic validation model predicts the real classes on the exemplar pool",
                           status=DISCHARGED if not bad else ERROR, backend="native-bounded", bounded=True, detail=str(bad[:3]), props=("C05", "C07", "C02", "C03", "C10"),
                           meta={"coverage": {"evaluations": len(cases)}}))
        except Exception as e:   # noqa
            out.append(Obl("xcheck:models/pydantic-model-vs-real-classes", MOD, "xcheck", "cross-check runs", status=ERROR, backend="native-bounded", bounded=True, detail=repr(e), props=("C05",)))
    return out
