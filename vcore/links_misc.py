"""Bounded whole-pipeline stand-ins (one obligation per failure clause, each tagged with the properties it serves),
the cross-process transcript check (C01), the thread stress (C17) and the confinement scan of the vendored sly."""
from __future__ import annotations

import ast
import os

from pyvc.contract import SRC
from vcore import native
from vcore.obl import Obl, DISCHARGED, REFUTED, UNDECIDED, ERROR

# compilation is a pure function of the text: the properties that quantify over several texts / compilations in one process
PIPE_PROPS = ("C01", "C02", "C05", "C06", "C07", "C08", "C09", "C11", "C13", "C14", "C17")
# compilation is a pure function of the text: the properties that quantify over several texts / compilations in one process
PIPE_PROPS = ("C01", "C02", "C05", "C06", "C07", "C08", "C09", "C11", "C13", "C14", "C17")
CLAUSES = {
    "compile": (("C07", "C15"), "a grammatical program compiles to an evaluator"),
    "internal-error": (("C07",), "evaluation ends with a group or the unroutable error, never an internal SyntaxError/NameError/..."),
    "routing": (("C02", "C05", "C07", "C09", "C13"), "the returned group belongs to exactly the return statement selected by if / else-if / else"),
    "error-class": (("C02", "C16", "C03", "C14"), "the outcome class (group / unroutable error) is the reference one"),
    "literal": (("C05",), "returned labels have the literal's exact value AND type"),
    "ast": (("C02", "C05", "C03", "C10", "C12", "C13"), "parse_source builds the AST the reference parser builds (values and types)"),
    "bucket": (("C12", "C03", "C10", "C15", "C09", "C01", "C16"), "the group inside the selected return statement is the one the published scheme gives"),
    "irrelevance": (("C09", "C15"), "extra keyword arguments and argument order do not change the outcome"),
    "module": (("C14",), "generate_code text (both layouts) behaves like the evaluator"),
    "inert": (("C13",), "nothing but the evaluation skeleton runs (sentinel builtin never invoked)"),
    "rebuild": (("C01", "C07", "C11", "C02", "C08", "C10", "C14"), "a second evaluator built from the same text (after other compilations in the same process) behaves identically"),
    "total": (("C15",), "any str/int/float/bool/None splitter value yields a group"),
}
MUT_CLAUSES = {
    "accepts-invalid": (("C06", "C11"), "a text the reference recogniser rejects does not compile"),
    "compile": (("C07",), "a token-level mutant that is still grammatical compiles"),
}


def _bounded(oid, fn, text, props, fails, cov):
    st = REFUTED if fails else DISCHARGED
    o = Obl(oid, fn, "bounded", text, bounded=True, props=props, status=st, backend="native-bounded",
            detail={"failures": fails[:2], "coverage": cov}, model={"failing_input": fails[0]} if fails else None, meta={"coverage": cov})
    o.replay = lambda ob: {"reproduced": True, "input": (ob.model or {}).get("failing_input"), "note": "found by executing the real code (bounded stand-in)"}
    return o


def _merge(results, stat_keys):
    fails, stats = {}, {k: 0 for k in stat_keys}
    for r in results:
        for k, v in r["failures"].items():
            fails.setdefault(k, []).extend(v)
        for k in stat_keys:
            stats[k] += r["stats"].get(k, 0)
    return fails, stats


def link_pipeline(ctx):
    out = []
    thorough = ctx.tier == "thorough"
    chunks = 12 if thorough else 1
    n = 1200 if thorough else 250
    allp = tuple(sorted({p for c in CLAUSES.values() for p in c[0]}))
    try:
        rs = native.parallel([{"cmd": "pipeline_diff", "count": n, "seed": ctx.seed * 1000 + i} for i in range(chunks)], workers=12, timeout=3000)
    except Exception as e:   # noqa
        return [Obl("bounded:pipeline/run", "pipeline", "bounded", "differential runs", status=ERROR, backend="native-bounded", bounded=True, detail=repr(e)[-800:], props=allp)]
    fails, st = _merge(rs, ["calls", "programs", "distinct_outcomes", "module_execs"])
    cov = {"evaluations": st["calls"], "programs": st["programs"], "distinct_outcomes": st["distinct_outcomes"],
           "bound": "%d x (%s)" % (chunks, rs[0]["bound"])}
    if fails.get("spec-self-check"):
        out.append(Obl("bounded:pipeline/spec-self-check", "spec", "bounded", "generator/renderer/reference parser round-trip", status=ERROR, backend="native-bounded", bounded=True,
                       detail=str(fails["spec-self-check"][:1]), props=("C02", "C05", "C07")))
    for clause, (props, text) in CLAUSES.items():
        out.append(_bounded("bounded:pipeline/%s" % clause, "pyab_experiment.experiment_evaluator:ExperimentEvaluator", text + " (generated programs x inputs near every literal)",
                            props, fails.get(clause, []), cov))
    try:
        r3s = native.parallel([{"cmd": "tv_diff", "count": 1500 if thorough else 200, "seed": ctx.seed * 1000 + i} for i in range(chunks)], workers=12, timeout=3000)
        f3 = [f for r in r3s for f in r["failures"]]
        out.append(_bounded("bounded:pipeline/codegen==D(ast)", "pyab_experiment.codegen.python.python_generator:PythonCodeGen.generate",
                            "translation validation: the Python AST of the real generator's output (both layouts) equals D(spec AST) on generated programs",
                            ("C02", "C03", "C05", "C07", "C09", "C10", "C12", "C13", "C14", "C01", "C15"), f3, {"evaluations": sum(r["evaluations"] for r in r3s), "bound": "%d x (%s)" % (chunks, r3s[0]["bound"])}))
    except Exception as e:   # noqa
        out.append(Obl("bounded:pipeline/codegen-run", "pipeline", "bounded", "translation validation runs", status=ERROR, backend="native-bounded", bounded=True, detail=repr(e)[-800:], props=("C02", "C14")))
    try:
        r2s = native.parallel([{"cmd": "mutants_diff", "count": 150 if thorough else 40, "seed": ctx.seed * 1000 + i} for i in range(chunks)], workers=12, timeout=3000)
        f2, st2 = _merge(r2s, ["mutants", "rejected_by_ref", "accepted_by_ref"])
        cov2 = {"evaluations": st2["mutants"], "rejected_by_reference": st2["rejected_by_ref"], "accepted_by_reference": st2["accepted_by_ref"], "bound": "%d x (%s)" % (chunks, r2s[0]["bound"])}
        for clause, (props, text) in MUT_CLAUSES.items():
            out.append(_bounded("bounded:mutants/%s" % clause, "pyab_experiment.experiment_evaluator:ExperimentEvaluator", text + " (token-level mutants)", props, f2.get(clause, []), cov2))
    except Exception as e:   # noqa
        out.append(Obl("bounded:mutants/run", "pipeline", "bounded", "mutant differential runs", status=ERROR, backend="native-bounded", bounded=True, detail=repr(e)[-800:], props=("C06", "C07")))
    return out


def link_transcripts(ctx):
    """C01 bounded: the same corpus evaluated in child interpreters that differ in hash seed, locale and cwd"""
    envs = [{"PYTHONHASHSEED": "0", "LANG": "C"}, {"PYTHONHASHSEED": "1", "LANG": "C.UTF-8"}, {"PYTHONHASHSEED": "4242", "LC_ALL": "C"}, {"PYTHONHASHSEED": "random"}]
    if ctx.tier == "thorough":
        envs += [{"PYTHONHASHSEED": str(s)} for s in range(2, 14)]
    rows, fails = [], []
    try:
        for i, e in enumerate(envs):
            cwd = "/" if i % 2 else os.path.dirname(os.path.abspath(__file__))
            saved = os.getcwd()
            os.chdir(cwd)
            try:
                rows.append(native.one({"cmd": "transcript"}, env_extra=e))
            finally:
                os.chdir(saved)
    except Exception as e2:   # noqa
        return [Obl("bounded:transcripts/run", "pipeline", "bounded", "transcripts run", status=ERROR, backend="native-bounded", bounded=True, detail=repr(e2)[-800:], props=("C01",))]
    base = rows[0]["rows"]
    n = 0
    for r, e in zip(rows, envs):
        for pi, (a, b) in enumerate(zip(base, r["rows"])):
            for ci, (x, y) in enumerate(zip(a, b)):
                n += 1
                if x != y or len(set(map(str, y))) != 1:
                    fails.append({"program": pi, "call": ci, "env": e, "reference_process": x, "this_process": y})
    cov = {"evaluations": n, "processes": len(envs), "bound": "4 programs x 60 inputs x 3 call variants (fresh / after recompile cycle, reversed argument order / repeated) in %d child interpreters" % len(envs)}
    return [_bounded("bounded:transcripts/cross-process", "pyab_experiment.experiment_evaluator:ExperimentEvaluator",
                     "assignments identical across interpreter processes (PYTHONHASHSEED, locale, cwd), instances, recompile cycles and repetitions", ("C01",), fails, cov)]


def link_threads(ctx):
    try:
        r = native.one({"cmd": "thread_stress", "seconds": 2.0 if ctx.tier == "quick" else 30.0, "threads": 8 if ctx.tier == "quick" else 16}, timeout=600)
    except Exception as e:   # noqa
        return [Obl("bounded:threads/run", "pipeline", "bounded", "thread stress runs", status=ERROR, backend="native-bounded", bounded=True, detail=repr(e)[-800:], props=("C17",))]
    return [_bounded("bounded:threads/stress", "pyab_experiment.experiment_evaluator:ExperimentEvaluator",
                     "concurrent construct / recompile / call at a 1 microsecond switch interval agree with the sequential reference (schedules are sampled, not explored)",
                     ("C17",), r["failures"], {"evaluations": r["evaluations"], "bound": r["bound"]})]


# --------------------------------------------------------------------------------------------------------------
# confinement scan of the vendored engine (C17, C01): on the run-time path no store targets a class or module object

RUNTIME_FUNCS = {"lex.py": ["Lexer.begin", "Lexer.push_state", "Lexer.pop_state", "Lexer.tokenize", "Lexer.error", "Token.__repr__"],
                 "yacc.py": ["Parser.parse", "Parser.restart", "Parser.errok", "Parser.error", "Parser.index_position", "Parser.line_position",
                             "YaccProduction.__init__", "YaccProduction.__getitem__", "YaccProduction.__setitem__", "YaccProduction.__len__",
                             "YaccProduction.lineno", "YaccProduction.index", "YaccProduction.end", "YaccProduction.__getattr__", "YaccProduction.__setattr__"]}
MUTATORS = {"append", "extend", "insert", "remove", "pop", "clear", "update", "add", "discard", "setdefault", "sort", "reverse", "popitem", "__setitem__", "__delitem__"}


def _find(tree, qual):
    body = tree.body
    node = None
    for part in qual.split("."):
        node = next((n for n in body if isinstance(n, (ast.ClassDef, ast.FunctionDef)) and n.name == part), None)
        if node is None:
            return None
        body = node.body
    return node


def _module_level_names(tree):
    names = set()
    for n in tree.body:
        if isinstance(n, ast.Assign):
            for t in n.targets:
                if isinstance(t, ast.Name):
                    names.add(t.id)
        elif isinstance(n, (ast.ClassDef, ast.FunctionDef)):
            names.add(n.name)
        elif isinstance(n, (ast.Import, ast.ImportFrom)):
            for a in n.names:
                names.add((a.asname or a.name).split(".")[0])
    return names


def scan_function(fn, modnames):
    """violations: stores / mutations whose target is not a local, a parameter's attribute, or an attribute of self"""
    bad = []
    locals_ = set()
    for a in fn.args.posonlyargs + fn.args.args + fn.args.kwonlyargs:
        locals_.add(a.arg)
    if fn.args.vararg:
        locals_.add(fn.args.vararg.arg)
    if fn.args.kwarg:
        locals_.add(fn.args.kwarg.arg)
    globals_declared = set()
    for n in ast.walk(fn):
        if isinstance(n, ast.Global):
            globals_declared |= set(n.names)
        if isinstance(n, ast.Name) and isinstance(n.ctx, ast.Store):
            locals_.add(n.id)
        if isinstance(n, ast.FunctionDef) and n is not fn:
            locals_.add(n.name)
    locals_ -= globals_declared

    def root(e):
        while isinstance(e, (ast.Attribute, ast.Subscript)):
            e = e.value
        return e

    def check_target(t, what, ln):
        if isinstance(t, ast.Name):
            if t.id in globals_declared:
                bad.append("line %d: %s of module-level name `%s`" % (ln, what, t.id))
            return
        if isinstance(t, (ast.Tuple, ast.List)):
            for x in t.elts:
                check_target(x, what, ln)
            return
        if isinstance(t, ast.Starred):
            return check_target(t.value, what, ln)
        r = root(t)
        src = ast.unparse(t)
        if isinstance(r, ast.Name):
            if r.id in ("cls",) or src.startswith(("self.__class__.", "type(self).")):
                bad.append("line %d: %s of class-level state `%s`" % (ln, what, src))
            elif r.id not in locals_ and r.id in modnames:
                bad.append("line %d: %s of module-level object `%s`" % (ln, what, src))
        elif isinstance(r, ast.Call) and ast.unparse(r.func) == "type":
            bad.append("line %d: %s of class-level state `%s`" % (ln, what, src))
    for n in ast.walk(fn):
        if isinstance(n, ast.Assign):
            for t in n.targets:
                check_target(t, "store", n.lineno)
        elif isinstance(n, (ast.AugAssign, ast.AnnAssign)):
            check_target(n.target, "store", n.lineno)
        elif isinstance(n, ast.Delete):
            for t in n.targets:
                check_target(t, "delete", n.lineno)
        elif isinstance(n, ast.Call) and isinstance(n.func, ast.Attribute) and n.func.attr in MUTATORS:
            r = root(n.func.value)
            if isinstance(r, ast.Name) and r.id not in locals_ and r.id in modnames and r.id not in ("self",):
                bad.append("line %d: in-place mutation `%s` of module-level object" % (n.lineno, ast.unparse(n.func)))
            if isinstance(r, ast.Name) and r.id == "cls":
                bad.append("line %d: in-place mutation `%s` of class-level object" % (n.lineno, ast.unparse(n.func)))
    return bad


def link_sly_confinement(ctx):
    out = []
    for fname, quals in RUNTIME_FUNCS.items():
        path = os.path.join(SRC, "pyab_experiment", "sly", fname)
        try:
            with open(path) as f:
                tree = ast.parse(f.read())
        except OSError as e:
            out.append(Obl("frame:sly/%s" % fname, "pyab_experiment.sly", "frame", "vendored engine source readable", status=UNDECIDED, backend="effect-scan", detail=str(e), props=("C17", "C01")))
            continue
        modnames = _module_level_names(tree)
        # every method of the classes whose instances live at run time (whatever it is called, dunder methods included), plus
        # the historical list: a build step moved into __init__ / __call__ is run-time code
        runtime_classes = {"lex.py": ("Lexer", "Token"), "yacc.py": ("Parser", "YaccProduction", "YaccSymbol")}[fname]
        quals = list(quals)
        for n in tree.body:
            if isinstance(n, ast.ClassDef) and n.name in runtime_classes:
                for m in n.body:
                    if not isinstance(m, ast.FunctionDef):
                        continue
                    is_cm = any(ast.unparse(d) == "classmethod" for d in m.decorator_list) or (m.args.args and m.args.args[0].arg in ("cls", "meta", "mcs"))
                    if isinstance(m, ast.FunctionDef) and "%s.%s" % (n.name, m.name) not in quals and not is_cm and m.name not in ("__init_subclass__",):
                        quals.append("%s.%s" % (n.name, m.name))
        # instance creation of lexers / parsers is plain allocation: no metaclass __call__, no __new__ handing out shared objects
        shared = []
        for n in tree.body:
            if isinstance(n, ast.ClassDef):
                for m in n.body:
                    if isinstance(m, ast.FunctionDef) and ((m.name == "__call__" and n.name.endswith("Meta")) or (m.name == "__new__" and n.name in runtime_classes)):
                        shared.append("line %d: %s.%s" % (m.lineno, n.name, m.name))
        out.append(Obl("frame:sly/%s.instance-creation-is-plain-allocation" % fname, "pyab_experiment.sly.%s" % fname[:-3], "frame",
                       "calling a lexer / parser class allocates a NEW object: the metaclass defines no __call__ and the run-time classes no __new__",
                       status=DISCHARGED if not shared else REFUTED, backend="effect-scan", detail="; ".join(shared), props=PIPE_PROPS + ("C03", "C10", "C12", "C15"),
                       model={"hooks": shared} if shared else None, replay=lambda ob: _thread_replay()))
        for q in quals:
            fn = _find(tree, q)
            if fn is None or not isinstance(fn, ast.FunctionDef):
                continue     # optional helpers may not exist in this version
            bad = scan_function(fn, modnames)
            out.append(Obl("frame:sly/%s:%s.stores-confined-to-instance-and-locals" % (fname, q), "pyab_experiment.sly.%s:%s" % (fname[:-3], q), "frame",
                           "every store / in-place mutation in %s targets a local, the instance (self) or an object reached from them -- never a class or module object" % q,
                           status=DISCHARGED if not bad else REFUTED, backend="effect-scan", detail="; ".join(bad), props=("C17", "C01"), model={"stores": bad} if bad else None,
                           replay=lambda ob: _thread_replay()))
    # first-party modules on the compile+evaluate path: no module-level mutable state at all
    for mod in ("pyab_experiment/utils/wraper_functions.py", "pyab_experiment/experiment_evaluator.py", "pyab_experiment/binning/binning.py",
                "pyab_experiment/codegen/python/python_generator.py", "pyab_experiment/language/grammar.py", "pyab_experiment/language/lexer.py"):
        path = os.path.join(SRC, mod)
        with open(path) as f:
            tree = ast.parse(f.read())
        bad = []
        for n in tree.body:
            if isinstance(n, (ast.Assign, ast.AnnAssign)):
                v = n.value
                tgt = ast.unparse(n.targets[0] if isinstance(n, ast.Assign) else n.target)
                if isinstance(v, (ast.Dict, ast.List, ast.Set, ast.ListComp, ast.DictComp, ast.SetComp)):
                    bad.append("line %d: module-level mutable container `%s`" % (n.lineno, tgt))
                elif isinstance(v, ast.Call) and ast.unparse(v.func) not in IMMUTABLE_MODULE_LEVEL_CTORS:
                    bad.append("line %d: module-level object `%s = %s(...)` shared by all callers" % (n.lineno, tgt, ast.unparse(v.func)))
        # a function that rebinds a module-level name (`global x`) keeps state between calls just as well
        for n in ast.walk(tree):
            if isinstance(n, ast.Global):
                bad.append("line %d: `global %s` -- a module-level variable is rebound at run time" % (n.lineno, ", ".join(n.names)))
        out.append(Obl("frame:%s.no-module-level-mutable-state" % mod.split("/")[-1], mod.replace("/", ".")[:-3], "frame",
                       "the module keeps no mutable object at module level (nothing is shared between evaluators, calls or threads)",
                       status=DISCHARGED if not bad else REFUTED, backend="effect-scan", detail="; ".join(bad),
                       props=PIPE_PROPS + ("C03", "C10", "C12", "C15", "C16"), model={"objects": bad} if bad else None,      # every property quantifies over several calls
                       replay=lambda ob: _thread_replay()))
    # nothing on the compile+evaluate path changes a PROCESS-GLOBAL interpreter setting (a save/restore pair is not atomic:
    # another thread can restore a stale value or run under the temporary one)
    allfiles = []
    for root, _dirs, files in os.walk(os.path.join(SRC, "pyab_experiment")):
        for fn_ in sorted(files):
            if fn_.endswith(".py"):
                allfiles.append(os.path.relpath(os.path.join(root, fn_), SRC))
    for mod in sorted(allfiles):       # every first-party file, package __init__ files and the vendored engine included (import-time code runs too)
        path = os.path.join(SRC, mod)
        if not os.path.exists(path):
            continue
        with open(path) as f:
            tree = ast.parse(f.read())
        bad = process_global_mutations(tree)
        out.append(Obl("frame:%s.no-process-global-settings-changed" % mod[len("pyab_experiment/"):], mod.replace("/", ".")[:-3], "frame",
                       "no call changes a process-wide interpreter setting (sys.set*, os.environ / chdir / umask, locale, random.seed, gc, warnings filters, signal, decimal context, sys.path / sys.modules)",
                       status=DISCHARGED if not bad else REFUTED, backend="effect-scan", detail="; ".join(bad), props=("C17", "C01", "C15", "C07", "C12", "C11"), model={"calls": bad} if bad else None,
                       replay=lambda ob: _thread_replay()))
    return out


# constructors whose result cannot be modified by anyone who holds it (a read-only mapping view of a dict literal nobody else can
# reach, immutable containers, compiled regexes, type-level objects)
IMMUTABLE_MODULE_LEVEL_CTORS = ("TypeVar", "typing.TypeVar", "frozenset", "tuple", "re.compile", "MappingProxyType", "types.MappingProxyType", "namedtuple",
                                "collections.namedtuple", "NamedTuple", "typing.NamedTuple", "NewType", "typing.NewType", "Fraction", "fractions.Fraction", "Decimal",
                                "decimal.Decimal", "str", "int", "float", "bytes", "range", "object", "struct.Struct", "operator.itemgetter", "operator.attrgetter",
                                "confloat", "conint", "constr", "conlist", "Field", "pydantic.Field", "logging.getLogger", "getLogger",
                                # calls that return an immutable number: a clock reading or a size taken at import time is a constant afterwards
                                "time.perf_counter", "time.perf_counter_ns", "time.monotonic", "time.monotonic_ns", "time.time", "time.time_ns", "time.process_time",
                                "perf_counter", "monotonic", "len", "sum", "min", "max", "abs", "round", "bool", "os.getpid", "complex", "hash", "id", "ord", "chr", "repr", "format")


PROCESS_GLOBAL_CALLS = {
    "sys.setrecursionlimit", "sys.setswitchinterval", "sys.settrace", "sys.setprofile", "sys.setcheckinterval", "sys.set_int_max_str_digits", "sys.set_asyncgen_hooks",
    "sys.setdlopenflags", "threading.settrace", "threading.setprofile", "threading.stack_size", "os.chdir", "os.umask", "os.putenv", "os.unsetenv", "os.setuid", "os.nice",
    "locale.setlocale", "random.seed", "random.setstate", "gc.disable", "gc.enable", "gc.set_threshold", "gc.freeze", "warnings.simplefilter", "warnings.filterwarnings",
    "warnings.resetwarnings", "signal.signal", "signal.alarm", "decimal.setcontext", "importlib.reload", "faulthandler.enable", "tracemalloc.start", "socket.setdefaulttimeout",
    "time.tzset", "resource.setrlimit", "multiprocessing.set_start_method", "logging.basicConfig", "logging.disable", "atexit.register",
}
PROCESS_GLOBAL_OBJECTS = ("os.environ", "sys.path", "sys.modules", "sys.argv", "sys.stdout", "sys.stderr", "sys.stdin", "sys.meta_path", "sys.flags", "builtins.")


def process_global_mutations(tree):
    names = {}
    imported_modules = {}       # local name -> module it denotes (only `import x` / `import x as y`: names that ARE modules)
    for n in ast.walk(tree):
        if isinstance(n, ast.Import):
            for a in n.names:
                names[(a.asname or a.name).split(".")[0]] = a.name if a.asname else a.name.split(".")[0]
                imported_modules[(a.asname or a.name).split(".")[0]] = a.name if a.asname else a.name.split(".")[0]
        elif isinstance(n, ast.ImportFrom) and n.module:
            for a in n.names:
                names[a.asname or a.name] = "%s.%s" % (n.module, a.name)

    def qual(e):
        try:
            txt = ast.unparse(e)
        except Exception:   # noqa
            return ""
        head = txt.split(".")[0].split("(")[0].split("[")[0]
        return names.get(head, head) + txt[len(head):]
    bad = []
    for n in ast.walk(tree):
        if isinstance(n, ast.Call):
            q = qual(n.func)
            if q in PROCESS_GLOBAL_CALLS:
                bad.append("line %d: %s(...)" % (n.lineno, q))
            elif q in ("setattr", "builtins.setattr", "delattr") and n.args and isinstance(n.args[0], ast.Name) and n.args[0].id in imported_modules:
                bad.append("line %d: %s on the imported module %s" % (n.lineno, q, imported_modules[n.args[0].id]))
            elif any(q.startswith(o) and q[len(o):].lstrip(".").split("(")[0] in ("append", "insert", "extend", "remove", "pop", "clear", "update", "setdefault", "__setitem__", "write")
                     for o in PROCESS_GLOBAL_OBJECTS if not o.startswith("sys.std")):
                bad.append("line %d: %s(...)" % (n.lineno, q))
            elif q.startswith("decimal.getcontext()") or q.startswith("decimal.localcontext"):
                pass
        elif isinstance(n, (ast.Assign, ast.AugAssign, ast.Delete)):
            tgts = n.targets if isinstance(n, (ast.Assign, ast.Delete)) else [n.target]
            for t in tgts:
                q = qual(t)
                if any(q.startswith(o) for o in PROCESS_GLOBAL_OBJECTS) or q.startswith("decimal.getcontext()."):
                    bad.append("line %d: store to %s" % (n.lineno, q))
                elif isinstance(t, (ast.Attribute, ast.Subscript)):
                    r = t
                    while isinstance(r, (ast.Attribute, ast.Subscript)):
                        r = r.value
                    if isinstance(r, ast.Name) and r.id in imported_modules:
                        bad.append("line %d: store into the imported module %s (`%s`): every user of that module in the process sees it" % (n.lineno, imported_modules[r.id], ast.unparse(t)))
    return bad


def _thread_replay():
    r = native.one({"cmd": "thread_stress", "seconds": 8.0, "threads": 16}, timeout=600)
    return {"input": r["failures"][:1], "reproduced": bool(r["failures"]), "bound": r["bound"],
            "note": "thread stress is only a replay ATTEMPT for a failed confinement obligation: schedules are sampled"}


# --------------------------------------------------------------------------------------------------------------
# E3: ghost lemmas in Lean 4 / Mathlib (code-independent facts that need induction), re-checked on every run

LEAN_LEMMAS = {
    "adj_sorted_pairwise": (("C03", "C10", "C16"), "adjacent-sorted list of reals is pairwise sorted (hypothesis `pairwise(c)` of the interval-uniqueness and monotonicity lemmas)"),
    "acc_chain": (("C03", "C10", "C16"), "running totals of non-negative weights are adjacent-sorted (precondition of bisect from weights >= 0, without float rounding)"),
    "acc_ones": (("C16",), "accumulate([1]*n)[i] == i+1 (no weights == equal weights)"),
    "grid_count": (("C03",), "|(ceil b - ceil a) - (b - a)| < 1: a group's number of grid points is within one of its exact share"),
}


def link_lean(ctx):
    import re
    import subprocess
    import time
    path = os.path.join(os.path.dirname(os.path.dirname(os.path.abspath(__file__))), "lean", "Ghost.lean")
    src = open(path).read()
    t0 = time.time()
    try:
        p = subprocess.run(["lean", path], capture_output=True, text=True, timeout=1500)
        outp = (p.stdout + p.stderr).strip()
        ok = p.returncode == 0 and "error" not in outp
        detail = "lean exit %d in %.1fs; %s" % (p.returncode, time.time() - t0, outp[-400:])
    except (OSError, subprocess.TimeoutExpired) as e:
        ok, detail = None, "lean unavailable / timed out: %r" % (e,)
    cheats = re.findall(r"\b(sorry|axiom|admit|native_decide)\b", re.sub(r"/-.*?-/", "", src, flags=re.S))
    out = []
    for name, (props, text) in LEAN_LEMMAS.items():
        present = re.search(r"theorem\s+%s\b" % name, src) is not None
        if ok is None or not present:
            st = UNDECIDED
        elif ok and not cheats:
            st = DISCHARGED
        else:
            st = ERROR
        o = Obl("lean:Ghost/%s" % name, "lemma:lean/" + name, "lemma", text, status=st, backend="lean4+mathlib", detail=detail + ("; forbidden tokens %s" % cheats if cheats else ""), props=props)
        o.time_s = (time.time() - t0) / len(LEAN_LEMMAS)
        out.append(o)
    return out


# --------------------------------------------------------------------------------------------------------------
# thorough tier: narrowing assumptions

def link_thorough_binning(ctx):
    """(a) the assumed contract of bisect_right proved for CPython's Lib/bisect.py with a loop invariant;
    (b) the rounding facts hidden by A-real attempted in z3's FloatingPoint theory (Float64, RNE)."""
    # (both parts take well under a second, so they run in every tier; the name of the link is historical)
    out = []
    try:
        from contracts import stdlib_bisect
        out += stdlib_bisect.obligations(ctx.reg, ctx.tier)
    except Exception as e:   # noqa
        out.append(Obl("bisect.bisect_right/proof-runs", "bisect:bisect_right", "safety", "Lib/bisect.py proof generated", status=ERROR, backend="pyvc", detail=repr(e)[-500:], props=("C03", "C16", "C10")))
    import z3
    from vcore.obl import smt_decider
    F = z3.Float64()
    rm = z3.RNE()
    a, w = z3.FP("a", F), z3.FP("w", F)
    zero = z3.FPVal(0.0, F)
    fin = lambda x: z3.And(z3.Not(z3.fpIsNaN(x)), z3.Not(z3.fpIsInf(x)))   # noqa: E731
    out.append(Obl("fp:accumulate/adding-a-nonnegative-weight-never-decreases-the-total", "lemma:float64", "lemma",
                   "binary64, round-to-nearest: a >= 0, w >= 0 finite  ==>  a (+) w >= a   (cumulative weights stay adjacent-sorted under rounding)",
                   decide=smt_decider([fin(a), fin(w), z3.fpGEQ(w, zero), z3.fpGEQ(a, zero), fin(z3.fpAdd(rm, a, w))], z3.fpGEQ(z3.fpAdd(rm, a, w), a), ctx.tier, second_solver=False),
                   props=("C03", "C16", "C10")))
    out.append(Obl("fp:accumulate/adding-zero-is-exact", "lemma:float64", "lemma", "binary64: a >= 0 finite ==> a (+) 0 == a   (a zero-weight group has an EMPTY interval also in float arithmetic)",
                   decide=smt_decider([fin(a), z3.fpGEQ(a, zero)], z3.fpEQ(z3.fpAdd(rm, a, zero), a), ctx.tier, second_solver=False), props=("C03", "C16")))
    if ctx.tier == "thorough":
        ctx.notes.append("A-real: the third rounding fact (0 <= u <= 1-2^-32, t normal ==> 0 <= u (*) t < t) was attempted in z3's FloatingPoint theory and stays an assumption (unknown after 300 s)")
    return out
