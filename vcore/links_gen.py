"""Generator link (E1-T): the REAL bodies of PythonCodeGen executed on symbolic AST nodes -> templates with typed holes
-> (a) structural obligations (effects, depth bookkeeping, alignment, determinism), (b) z3 obligations on raw
interpolation sites, (c) parse-oracle cases: template instantiated under interpretations vs the spec `D`.
Recursive calls are replaced by the method's own contract (induction hypothesis)."""
from __future__ import annotations

import ast
import keyword
import traceback

import z3

from pyvc import struct as S
from pyvc import tmpl as T
from pyvc.contract import load_module
from spec import d_ref as D
from vcore import native
from vcore.obl import Obl, DISCHARGED, REFUTED, UNDECIDED, ERROR, smt_decider

GENMOD = "pyab_experiment.codegen.python.python_generator"
GFN = GENMOD + ":PythonCodeGen."
CMP_OPS = ["EQ", "NE", "GT", "GE", "LT", "LE", "NOT_IN", "IN"]
STR_POOL = ["abc", "it's", 'say "hi"', "C:\\temp", "", "02134", "caf\u00e9", "'+str(print('PWNED'))+'", "a\\", "{x}", "%s", "\\n", "inf", "1e5", "'", '"""', "\\'", "\U0001F680", " x ", "x" * 40, "v1\rimport builtins", "a\x0cb", "a\u2028b"]
INT_POOL = [0, 18, -5, 9007199254740993, 10 ** 30]
FLOAT_POOL = [1.5, -0.25, 0.1, 1e22, 3.4]
TUPLE_POOL = [(1, 2, 3), ("a",), (1, [2, 3]), ("it's", -1.5), (T.IdentObj("x"), 1), ((1,),), (1, [2, [3, "z"]])]
NAME_SETS = [(["account_id", "id", "uid"], {"id", "tier"}), (["b", "a"], {"c", "a2"}), (["x"], {"x"}), (["u", "u", "t"], {"t", "w"}), (["B", "a", "_c"], set()), (["uid"], {"age", "country"})]


def links_for(pid):
    return [link_generator]


class Case:
    def __init__(self, oid, fn, text, real, expected, props, mode="exec", note=None, replay=None):
        self.oid, self.fn, self.text, self.real, self.expected, self.props, self.mode, self.note, self.replay = oid, fn, text, real, expected, props, mode, note, replay


def placeholder(h, I):
    k = h.kind
    if k == "ParenExpr":
        return "(__p%d__)" % h.id
    if k == "Term":
        return "__t%d__" % h.id
    if k in ("Block", "ReturnStmt", "ElseClauses") and h.kw["depth"].absolute is not None:
        d = h.kw["depth"].absolute
        if k == "Block":
            return "\t" * d + "__blk%d__\n" % h.id
        if k == "ReturnStmt":
            return "\t" * d + "__ret%d__\n" % h.id
        return "\t" * d + "else: \n" + "\t" * (d + 1) + "__els%d__\n" % h.id
    if k == "Block":
        d = I.base + h.kw["depth"].k
        return "\t" * d + "__blk%d__\n" % h.id
    if k == "ReturnStmt":
        d = I.base + h.kw["depth"].k
        return "\t" * d + "__ret%d__\n" % h.id
    if k == "ElseClauses":
        d = I.base + h.kw["depth"].k
        if I.values.get("elif_variant"):
            return "\t" * d + "elif __q%d__: \n" % h.id + "\t" * (d + 1) + "__els%d__\n" % h.id
        return "\t" * d + "else: \n" + "\t" * (d + 1) + "__els%d__\n" % h.id
    if k == "Topline":
        return D.TOPLINE
    if k == "KeyExpr":
        return "__key__"
    raise S.Unsupported("no placeholder for hole %s" % k)


def gen_replay(o):
    tv = native.one({"cmd": "tv_diff", "count": 150, "seed": 5, "limit": 1})
    if tv["failures"]:
        return {"input": tv["failures"][0], "reproduced": True, "oracle_case": (o.model or {}),
                "note": "generated programs through the REAL generator: generated Python AST differs from D(ast)"}
    r = native.one({"cmd": "pipeline_diff", "count": 200, "seed": 5, "limit": 1})
    order = ["internal-error", "compile", "routing", "literal", "bucket", "module", "inert", "irrelevance", "total", "ast"]
    f = next((r["failures"][k][0] for k in order if k in r["failures"]), None)
    return {"input": f, "reproduced": bool(f), "oracle_case": (o.model or {}),
            "note": "bounded differential of the real pipeline vs the reference semantics on generated programs"}


def case_replay(o):
    """replay an oracle counter-case on the REAL generator: build the concrete AST of the case and run it"""
    m = o.model or {}
    prog = m.get("program")
    if prog:
        tv = native.one({"cmd": "tv_diff", "programs": [prog], "limit": 1})
        if tv["failures"]:
            return {"input": tv["failures"][0], "reproduced": True, "note": "the case's DSL program through the REAL generator: generated Python AST differs from D(ast)"}
        r = native.one({"cmd": "pipeline_diff", "programs": [prog], "limit": 1, "envs": 8})
        f = next((v[0] for v in r["failures"].values() if v), None)
        if f:
            return {"input": f, "reproduced": True, "note": "the case's DSL program run through the real pipeline vs the reference semantics"}
    return gen_replay(o)


class GenCtx:
    def __init__(self, mutate=None):
        self.mod = load_module(GENMOD, mutate)
        self.cls = next((n for n in self.mod.tree.body if isinstance(n, ast.ClassDef) and n.name == "PythonCodeGen"), None)
        from vcore.links_gram import model_info
        self.enums, self.models = model_info()

    def on_attr(self, base, attr):
        if isinstance(base, S.Sym) and base.kind == "elem":
            return S.Sym("%s.%s" % (base.name, attr), "field", base=base, field=attr)
        return NotImplemented

    def executor(self, contracts):
        # imported modules (e.g. `import json`) are visible as library modules; first-party names are not resolved here
        mods = {k: v for k, v in self.mod.names.items() if "." not in v and not v.startswith("pyab_experiment")}
        return S.SExec(classdef=self.cls, enums=self.enums, models=self.models, contracts=contracts, on_attr=self.on_attr, module_names=mods)

    def me(self, expose=False, ast_node=None, depth=None):
        return S.Obj("PythonCodeGen", _experiment_ast=ast_node, _local_vars=S.SetT(), _conditional_ids=S.SetT(), _indentation_char="\t",
                     _newline="\n", _indent_depth=depth if depth is not None else S.Depth(0), _expose_fn=expose)


# ----------------------------------------------------------------------------------------------- contracts (IH)
def as_depth(v):
    return S.Depth(0, absolute=v) if isinstance(v, int) else v


def c_indent(ex, me):
    return S.Tmpl([S.Hole("indent", None, unit=me.attrs["_indentation_char"], depth=as_depth(me.attrs["_indent_depth"]))])


def c_exception(ex, me):
    return S.Tmpl([c_indent(ex, me), D.RAISE])


def c_term(ex, me, term):
    me.attrs["_conditional_ids"] = me.attrs["_conditional_ids"].union(S.SetT([("ids", _idnode(term))]))
    return S.Tmpl([S.Hole("Term", term)])


_IDNODES = {}


def _idnode(x):
    """a stable carrier object for 'the identifiers occurring in x'"""
    key = id(x)
    if key not in _IDNODES:
        _IDNODES[key] = (S.Sym("ids", "ids"), x)
    return _IDNODES[key][0]


def c_predicate(ex, me, pred):
    if pred is None:
        return ""
    me.attrs["_conditional_ids"] = me.attrs["_conditional_ids"].union(S.SetT([("ids", _idnode(pred))]))
    return S.Tmpl([S.Hole("ParenExpr", pred)])


def c_op(ex, me, op):
    if isinstance(op, S.EnumV):
        table = dict(D.CMP) if op.cls == "LogicalOperatorEnum" else dict(D.BOOL)
        if op.name in table:
            return table[op.name]
    raise S.GenRaise("RuntimeError", "OperatorEnum not matched")


def c_conditionals(ex, me, cond):
    me.attrs["_conditional_ids"] = me.attrs["_conditional_ids"].union(S.SetT([("ids", _idnode(cond))]))
    kind = "Block"
    if isinstance(cond, S.Sym) and cond.info.get("clause"):
        kind = "ElseClauses"
    return S.Tmpl([S.Hole(kind, cond, depth=as_depth(me.attrs["_indent_depth"]), nonempty=True)])


def c_group_return(ex, me, groups):
    return S.Tmpl([S.Hole("ReturnStmt", groups, depth=as_depth(me.attrs["_indent_depth"]), nonempty=True)])


def c_local_vars(ex, me):
    return S.SeqT("sorted", me.attrs["_local_vars"])


def c_conditional_ids(ex, me):
    return S.SeqT("sorted", me.attrs["_conditional_ids"])


def c_topline(ex, me):
    return S.Tmpl([S.Hole("Topline", None, nonempty=True)])


def c_key(ex, me):
    node = me.attrs["_experiment_ast"]
    f = node.fields["splitting_fields"]
    if f is None or f == []:
        return "None"
    me.attrs["_local_vars"] = me.attrs["_local_vars"].union(S.SetT([("of", f)]))
    return S.Tmpl([S.Hole("KeyExpr", None, nonempty=True)])


ALL_CONTRACTS = {"indent": c_indent, "_generate_exception": c_exception, "_generate_term": c_term, "_generate_predicate": c_predicate,
                 "_generate_op": c_op, "_generate_conditionals": c_conditionals, "_generate_group_return_statement": c_group_return,
                 "local_vars": c_local_vars, "conditional_ids": c_conditional_ids, "render_topline": c_topline, "generate_key_definition": c_key}


def contracts_except(*names):
    return {k: v for k, v in ALL_CONTRACTS.items() if k not in names}


# ----------------------------------------------------------------------------------------------- the link
def link_generator(ctx, mutate=None, tag=""):
    out, cases = [], []
    pre = "gen%s:" % tag
    try:
        G = GenCtx(mutate)
    except Exception:
        return [Obl(pre + "extract", GFN, "template", "generator source can be read", status=ERROR, backend="extract", detail=traceback.format_exc()[-800:], props=("C02",))]
    if G.cls is None:
        return [Obl(pre + "extract", GFN, "template", "class PythonCodeGen exists", status=UNDECIDED, backend="extract", detail="missing", props=("C02", "C05", "C07", "C09", "C12", "C13", "C14", "C01", "C03", "C10", "C15"))]

    def run(name, method, props, fn):
        """run fn(); Unsupported/Undetermined => undecided obligation; GenRaise => refuted"""
        oid = pre + name
        try:
            fn()
        except (S.Unsupported, S.Undetermined, KeyError) as e:
            out.append(Obl(oid + "/in-subset", GFN + method, "template", "method body inside the supported subset for this shape", status=UNDECIDED,
                           backend="structural", detail="%s: %s" % (type(e).__name__, e), props=props))
        except S.GenRaise as e:
            out.append(Obl(oid + "/no-exception", GFN + method, "template", "the generator does not raise on a well-formed AST", status=REFUTED,
                           backend="structural", detail=str(e), props=props, model={"raises": str(e)}, replay=gen_replay))

    def struct_obl(oid, method, text, ok, detail, props, model=None, replay=gen_replay):
        out.append(Obl(pre + oid, GFN + method, "template", text, status=DISCHARGED if ok else REFUTED, backend="structural", detail=detail, props=props,
                       model=model if not ok else None, replay=replay))

    # ---- A. small helpers -------------------------------------------------------------------------------------
    def helpers():
        ex = G.executor(contracts_except("indent"))
        me = G.me(depth=S.Depth(0))
        t = ex.call_method("indent", me, [])
        ok = isinstance(t, S.Tmpl) and len(t.parts) == 1 and isinstance(t.parts[0], S.Hole) and t.parts[0].kind == "indent" and t.parts[0].kw["depth"].k == 0 and t.parts[0].kw["unit"] == "\t"
        struct_obl("indent/==indentation_char*depth", "indent", "indent() is exactly indentation_char repeated _indent_depth times", ok, repr(t), ("C02", "C14", "C07"))
        ex = G.executor(contracts_except("_generate_exception"))
        me = G.me(depth=S.Depth(0))
        t = ex.call_method("_generate_exception", me, [])
        I = T.Interp(base_depth=2, placeholder=placeholder)
        cases.append(Case(pre + "_generate_exception/raises-the-dedicated-error", GFN + "_generate_exception", "the unroutable-condition statement is `raise ExperimentConditionalFailedError()` at the current depth",
                          "def f():\n\tdef g():\n" + T.render(t, I) + "\n", "def f():\n\tdef g():\n\t\t" + D.RAISE + "\n", ("C02", "C07")))
        for salt_kind in ("none", "str"):
            ex = G.executor(contracts_except("render_topline"))
            salt = S.Sym("salt", "str") if salt_kind == "str" else None
            idn = S.Sym("id", "ident")
            node = S.Node("ExperimentAST", id=idn, splitting_fields=S.Sym("F", "list", nonempty=True), salt=salt, conditions=S.Sym("C", "node:cond"))
            t = ex.call_method("render_topline", G.me(ast_node=node), [])
            raws = [h for h in (S.Tmpl([t]).holes() if not isinstance(t, str) else []) if h.kind in ("str()", "format()") and isinstance(h.payload, S.Sym) and h.payload.kind == "str"]
            struct_obl("render_topline/salt=%s.no-source-text-in-the-header" % salt_kind, "render_topline",
                       "the module header contains no text taken from the source (a raw salt in a `#` comment ends the comment at a \\r)", not raws, repr(t)[:300], ("C13", "C14"),
                       model={"raw_holes": [repr(h) for h in raws], "witness_salt": "v1\rimport os"})
            for j, sv in enumerate(STR_POOL if salt is not None else [None]):
                vals = {idn.id: "exp"}
                if salt is not None:
                    vals[salt.id] = sv
                try:
                    real = T.render(t, T.Interp(vals, placeholder=placeholder))
                except Exception as e:   # noqa
                    real = "<render failed: %s>" % e
                prog = None
                if sv is not None:
                    try:
                        from spec import dsl_ref
                        prog = 'def exp { salt: %s splitters: uid return "A" weighted 1, "B" weighted 1 }' % dsl_ref.q(sv)
                    except ValueError:
                        prog = None
                cases.append(Case(pre + "render_topline/salt=%s[%d] imports-exactly-the-skeleton-names" % (salt_kind, j), GFN + "render_topline",
                                  "the module header imports partial, ExperimentConditionalFailedError, deterministic_choice and does nothing else, whatever the source contains",
                                  real, D.TOPLINE, ("C14", "C13"), note={"salt": sv, "program": prog}, replay=case_replay))
        for prop, attr in (("local_vars", "_local_vars"), ("conditional_ids", "_conditional_ids")):
            ex = G.executor(contracts_except(prop))
            sym = S.Sym("names", "list", nonempty=True)
            me = G.me(ast_node=S.Node("ExperimentAST", id=S.Sym("id", "ident"), splitting_fields=sym, salt=None, conditions=S.Sym("C", "node:cond")))
            me.attrs[attr] = S.SetT([("of", sym)])
            r = ex.dispatch(prop, me, [], {})
            ok = isinstance(r, S.SeqT) and r.op == "sorted" and r.args[0].atoms == me.attrs[attr].atoms
            struct_obl("%s/==sorted(set)" % prop, prop, "%s is the sorted list of the DISTINCT names (no dependence on set iteration order or declaration order)" % prop,
                       ok, repr(r), ("C01", "C09", "C12"), model={"result": repr(r)})
    run("helpers", "indent", ("C02", "C14", "C01", "C07", "C09", "C12", "C13"), helpers)

    def init():
        ex = G.executor({})
        node = S.Sym("ast", "node:ExperimentAST")
        for expose in (True, False):
            me = S.Obj("PythonCodeGen")
            ex.call_method("__init__", me, [node], {"expose_experiment_variant_function": expose})
            a = me.attrs
            ok = (a.get("_experiment_ast") is node and isinstance(a.get("_local_vars"), S.SetT) and not a["_local_vars"].atoms and
                  isinstance(a.get("_conditional_ids"), S.SetT) and not a["_conditional_ids"].atoms and a.get("_indent_depth") == 0 and
                  a.get("_newline") == "\n" and a.get("_indentation_char") in ("\t", " ", "  ", "    ") and a.get("_expose_fn") is expose)
            struct_obl("__init__/fresh-state(expose=%s)" % expose, "__init__",
                       "a new generator starts with no recorded fields, depth 0, newline '\\n', whitespace indentation, and the layout flag it was given (no state shared between generators)",
                       ok, repr({k: v for k, v in a.items() if k != "_experiment_ast"}), ("C01", "C14", "C02", "C07", "C09"))
    run("init", "__init__", ("C01", "C14", "C02", "C07", "C09"), init)

    # ---- B. operators --------------------------------------------------------------------------------------------
    def ops():
        seen = {}
        for cls, table in (("LogicalOperatorEnum", D.CMP), ("BooleanOperatorEnum", D.BOOL)):
            for member in sorted(G.enums.get(cls, [])):
                ex = G.executor(contracts_except("_generate_op"))
                try:
                    r = ex.call_method("_generate_op", G.me(), [S.EnumV(cls, member)])
                except S.GenRaise as e:
                    r = "raises %s" % e
                want = table.get(member)
                struct_obl("_generate_op/%s.%s" % (cls, member), "_generate_op", "%s.%s is rendered as the Python operator `%s`" % (cls, member, want),
                           r == want, "got %r" % (r,), ("C02",), model={"operator": "%s.%s" % (cls, member), "rendered": repr(r), "expected": want})
                seen[(cls, member)] = r
        vals = [v for v in seen.values() if isinstance(v, str)]
        struct_obl("_generate_op/injective", "_generate_op", "distinct DSL operators are rendered as distinct Python operators", len(vals) == len(set(vals)), str(seen), ("C02",))
    run("ops", "_generate_op", ("C02",), ops)

    # ---- C. terms ------------------------------------------------------------------------------------------------
    def terms():
        # identifier
        ex = G.executor(contracts_except("_generate_term"))
        me = G.me()
        name = S.Sym("name", "ident")
        r = ex.call_method("_generate_term", me, [S.Node("Identifier", name=name)])
        ids = me.attrs["_conditional_ids"]
        struct_obl("_generate_term/Identifier.renders-the-name", "_generate_term", "an identifier is rendered as its name (a Python Name)", r is name or (isinstance(r, S.Tmpl) and r.parts == [name]),
                   repr(r), ("C02", "C07", "C09"))
        struct_obl("_generate_term/Identifier.recorded-as-condition-field", "_generate_term", "the identifier is added to the condition fields (so it becomes a parameter)",
                   len(ids.atoms) == 1 and ids.atoms[0][0] == "elem" and ids.atoms[0][1] is name, repr(ids), ("C07", "C09"))
        # literals
        for kind, pool in (("str", STR_POOL), ("int", INT_POOL), ("float", FLOAT_POOL), ("tuple", TUPLE_POOL)):
            ex = G.executor(contracts_except("_generate_term") if kind != "tuple" else dict(contracts_except("_generate_term"), _generate_term=c_term))
            me = G.me()
            sym = S.Sym("lit", kind, nonempty=True)
            if kind == "tuple":
                # the method's own body on a tuple; members go through the induction hypothesis
                ex2 = G.executor(contracts_except("_generate_term"))
                ex2.contracts = dict(ex2.contracts)
                depth = {"n": 0}

                def ih(exx, mee, term, _ex2=ex2, _d=depth):
                    if _d["n"] == 0:
                        _d["n"] = 1
                        try:
                            return _ex2.call_method("_generate_term", mee, [term])
                        finally:
                            _d["n"] = 0
                    return c_term(exx, mee, term)
                ex2.contracts["_generate_term"] = ih
                r = ih(ex2, me, sym)
            else:
                r = ex.call_method("_generate_term", me, [sym])
            t = S.Tmpl([ex.fmt(r)]) if not isinstance(r, S.Tmpl) else r      # what an f-string makes of it
            struct_obl("_generate_term/%s.no-condition-field" % kind, "_generate_term", "a literal adds no parameter (tuple members only through their own rendering)",
                       all(a[0] == "ids" for a in me.attrs["_conditional_ids"].atoms), repr(me.attrs["_conditional_ids"]), ("C07", "C09"))
            raw = raw_quote_site(t)
            if raw is not None:
                out.append(raw_obligation(pre + "_generate_term/%s.raw-quoting" % kind, "_generate_term", raw, ctx, ("C05", "C13")))
            for i, v in enumerate(pool):
                I = T.Interp({sym.id: v}, placeholder=placeholder, spec_term=D.term)
                try:
                    real = T.render(t, I)
                except S.GenRaise as e:
                    real = "raise %s" % e
                prog = None
                try:
                    from spec import dsl_ref
                    if kind != "tuple" or all(not isinstance(x, (list, T.IdentObj)) for x in v):
                        prog = 'def e { splitters: uid if x == %s { return "A" weighted 1 } else { return "B" weighted 1 } }' % dsl_ref.r_term(_spec_term(v))
                except Exception:   # noqa
                    prog = None
                cases.append(Case(pre + "_generate_term/%s[%d] denotes the literal" % (kind, i), GFN + "_generate_term",
                                  "the rendered term is a Python expression denoting exactly %r (value and type)" % (v,), "(" + real + ")", "(" + D.term(v) + ")",
                                  ("C05", "C13", "C02", "C07") if kind != "tuple" else ("C05", "C07", "C02"), mode="eval", note={"value": repr(v), "program": prog}, replay=case_replay))
    run("terms", "_generate_term", ("C05", "C07", "C13", "C02", "C09"), terms)

    # ---- D. predicates -------------------------------------------------------------------------------------------
    def preds():
        for op in sorted(G.enums.get("LogicalOperatorEnum", [])):
            ex = G.executor(contracts_except("_generate_predicate"))
            me = G.me()
            L, R = S.Sym("L", "any-term"), S.Sym("R", "any-term")
            node = S.Node("TerminalPredicate", left_term=L, logical_operator=S.EnumV("LogicalOperatorEnum", op), right_term=R)
            t = ex.call_method("_generate_predicate", me, [node])
            hs = [h for h in S.Tmpl([t]).holes() if h.kind == "Term"]
            order_ok = len(hs) == 2 and hs[0].payload is L and hs[1].payload is R
            I = T.Interp(placeholder=placeholder)
            real = T.render(t, I)
            exp = D.compare(op, "__t%d__" % hs[0].id, "__t%d__" % hs[1].id) if order_ok and op in D.CMP else "<unexpected>"
            cases.append(Case(pre + "_generate_predicate/Terminal.%s" % op, GFN + "_generate_predicate", "left <%s> right, operands in order, as ONE parenthesised expression" % D.CMP.get(op, op),
                              real, "(" + exp + ")", ("C02", "C07"), mode="eval", note={"operator": op}))
            struct_obl("_generate_predicate/Terminal.%s.parenthesised" % op, "_generate_predicate", "the rendered comparison is wrapped in parentheses (an atom for every context)",
                       isinstance(t, S.Tmpl) and t.parts and t.parts[0] == "(" or (isinstance(t.parts[0], str) and t.parts[0].startswith("(")) and isinstance(t.parts[-1], str) and t.parts[-1].endswith(")"),
                       repr(t), ("C02",))
        for op in sorted(G.enums.get("BooleanOperatorEnum", [])):
            ex = G.executor(contracts_except("_generate_predicate"))
            ex.contracts = dict(ex.contracts)
            P1, P2 = S.Sym("P1", "node:pred"), S.Sym("P2", "node:pred")
            first = {"n": 0}

            def ih(exx, mee, pred, _ex=ex, _f=first):
                if _f["n"] == 0:
                    _f["n"] = 1
                    return _ex.call_method("_generate_predicate", mee, [pred])
                return c_predicate(exx, mee, pred)
            ex.contracts["_generate_predicate"] = ih
            me = G.me()
            node = S.Node("RecursivePredicate", left_predicate=P1, boolean_operator=S.EnumV("BooleanOperatorEnum", op), right_predicate=None if op == "NOT" else P2)
            t = ih(ex, me, node)
            hs = [h for h in S.Tmpl([t]).holes() if h.kind == "ParenExpr"]
            I = T.Interp(placeholder=placeholder)
            real = T.render(t, I)
            want_n = 1 if op == "NOT" else 2
            if len(hs) == want_n and hs[0].payload is P1 and (op == "NOT" or hs[1].payload is P2) and op in D.BOOL:
                exp = D.boolean(op, "__p%d__" % hs[0].id, "__p%d__" % hs[1].id if op != "NOT" else None)
            else:
                exp = "<unexpected>"
            cases.append(Case(pre + "_generate_predicate/Recursive.%s" % op, GFN + "_generate_predicate", "`%s` of the sub-predicates, in order, parenthesised" % D.BOOL.get(op, op),
                              real, "(" + exp + ")", ("C02", "C07"), mode="eval", note={"operator": op}))
        ex = G.executor(contracts_except("_generate_predicate"))
        r = ex.call_method("_generate_predicate", G.me(), [None])
        struct_obl("_generate_predicate/None.empty", "_generate_predicate", "no predicate (ELSE) renders as the empty string", r == "", repr(r), ("C02",))
    run("predicates", "_generate_predicate", ("C02", "C07"), preds)

    # ---- E. return statement -------------------------------------------------------------------------------------
    def groups():
        ex = G.executor(contracts_except("_generate_group_return_statement"))
        me = G.me(depth=S.Depth(0))
        gs = S.Sym("groups", "groups", nonempty=True)
        t = ex.call_method("_generate_group_return_statement", me, [gs])
        lists = [h for h in S.Tmpl([t]).holes() if h.kind == "str(list)"]

        def plain_map_over(h, field):
            q = h.payload
            return isinstance(q, S.SeqT) and q.op == "map" and isinstance(q.args[2], S.SeqT) and q.args[2].op == "sym" and q.args[2].args[0] is gs and \
                isinstance(q.args[0], S.Sym) and q.args[0].kind == "field" and q.args[0].info["field"] == field and q.args[0].info["base"] is q.args[1]
        ok = len(lists) == 2 and plain_map_over(lists[0], "group_definition") and plain_map_over(lists[1], "group_weight")
        struct_obl("_generate_group_return_statement/position-aligned", "_generate_group_return_statement",
                   "population and weights are both maps over the SAME group list in declaration order (group i <-> weight i)", ok, repr(t), ("C03", "C10", "C02"),
                   model={"template": repr(t)})
        pools = [[("A", 1.0), ("B", 2.0)], [("b", 0.2), ("a", 0.2), ("c", 0.6)], [(0, 1.0), (1.5, 0.5), ("0", 3.4)], [("it's", 1.0), ("C:\\temp", 1e-9), ("", 1e9)], [(9007199254740993, 1.0)],
                 [("a", 1234567.0), ("b", 7654321.0)], [("a", 0.1234567), ("b", 0.7654321), ("c", 123456789.125)],
                 # a label listed more than once keeps every one of its slots, in place; decimals that start with 0; whole and round weights
                 [("A", 1.0), ("B", 2.0), ("A", 3.0)], [("blue", 1.0), ("green", 1.0), ("blue", 1.0), ("red", 0.0), ("green", 2.0)],
                 [("x", 1.05), ("y", 20.02), ("z", 0.05), ("w", 10.0), ("v", 100.0), ("u", 0.0)], [(1.0, 1.0), (10.05, 2.0), (10, 3.0), ("10.0", 4.0)]]
        for i, pool in enumerate(pools):
            I = T.Interp({gs.id: [{"group_definition": d, "group_weight": w} for d, w in pool]}, base_depth=3, placeholder=placeholder)
            real = T.render(t, I)
            labels = ", ".join("%s weighted %s" % (_dsl_lit(d), _dsl_lit(w)) for d, w in pool)
            cases.append(Case(pre + "_generate_group_return_statement/[%d]" % i, GFN + "_generate_group_return_statement",
                              "`return partial(deterministic_choice, population=[...], weights=[...])` with exact labels (value and type) in declaration order",
                              "def f():\n\tdef g():\n\t\tif x:\n" + real, "def f():\n\tdef g():\n\t\tif x:\n" + D.group_return(3, pool), ("C03", "C05", "C10", "C13", "C02", "C01", "C12"),
                              note={"groups": repr(pool), "program": 'def e { splitters: uid return %s }' % labels}, replay=case_replay))
    run("groups", "_generate_group_return_statement", ("C03", "C05", "C10", "C13", "C02", "C01", "C12"), groups)

    # ---- F. conditionals -----------------------------------------------------------------------------------------
    def conds():
        ex0 = G.executor(contracts_except("_generate_conditionals"))
        me = G.me(depth=S.Depth(0))
        gs = S.Sym("groups", "groups", nonempty=True)
        t = ex0.call_method("_generate_conditionals", me, [gs])
        hs = S.Tmpl([t]).holes() if not isinstance(t, str) else []
        struct_obl("_generate_conditionals/leaf==return-statement", "_generate_conditionals", "a group list is rendered by _generate_group_return_statement at the current depth",
                   len(hs) == 1 and hs[0].kind == "ReturnStmt" and hs[0].payload is gs and hs[0].kw["depth"].k == 0, repr(t), ("C02", "C03"))
        for ct in sorted(G.enums.get("ConditionalType", [])):
            for fb_kind in ("none", "else", "elif"):
                if ct == "ELSE" and fb_kind != "none":
                    continue
                ex = G.executor(contracts_except("_generate_conditionals"))
                ex.contracts = dict(ex.contracts)
                first = {"n": 0}

                def ih(exx, mee, cond, _ex=ex, _f=first):
                    if _f["n"] == 0:
                        _f["n"] = 1
                        return _ex.call_method("_generate_conditionals", mee, [cond])
                    return c_conditionals(exx, mee, cond)
                ex.contracts["_generate_conditionals"] = ih
                me = G.me(depth=S.Depth(0))
                P = S.Sym("P", "node:pred")
                TB = S.Sym("TB", "node:cond")
                FB = None if fb_kind == "none" else S.Sym("FB", "node:cond", clause=True)
                node = S.Node("ExperimentConditional", conditional_type=S.EnumV("ConditionalType", ct), predicate=None if ct == "ELSE" else P, true_branch=TB, false_branch=FB)
                t = ih(ex, me, node)
                name = "%s/%s" % (ct, fb_kind)
                struct_obl("_generate_conditionals/%s.depth-restored" % name, "_generate_conditionals", "_indent_depth on exit == on entry", me.attrs["_indent_depth"].k == 0,
                           repr(me.attrs["_indent_depth"]), ("C02", "C14", "C07"))
                hs = S.Tmpl([t]).holes()
                blk = [h for h in hs if h.kind == "Block"]
                els = [h for h in hs if h.kind == "ElseClauses"]
                pe = [h for h in hs if h.kind == "ParenExpr"]
                shape_ok = len(blk) == 1 and blk[0].payload is TB and blk[0].kw["depth"].k == 1 and len(els) == (0 if FB is None else 1) and \
                    (FB is None or (els[0].payload is FB and els[0].kw["depth"].k == 0)) and len(pe) == (0 if ct == "ELSE" else 1) and (ct == "ELSE" or pe[0].payload is P)
                struct_obl("_generate_conditionals/%s.children-at-the-right-depth" % name, "_generate_conditionals",
                           "true branch rendered one level deeper, false branch at the same level, the node's own predicate used once", shape_ok, repr(t), ("C02", "C07"))
                if not shape_ok:
                    continue
                for variant in ((False, True) if FB is not None else (False,)):
                    I = T.Interp({"elif_variant": variant}, base_depth=2, placeholder=placeholder)
                    real = T.render(t, I)
                    head = "\t\tif __pre__:\n\t\t\tpass\n" if ct != "IF" else ""
                    d2, d3 = "\t\t", "\t\t\t"
                    if ct == "ELSE":
                        exp = d2 + "else:\n" + d3 + "__blk%d__\n" % blk[0].id
                    else:
                        exp = d2 + ("if" if ct == "IF" else "elif") + " (__p%d__):\n" % pe[0].id + d3 + "__blk%d__\n" % blk[0].id
                    if FB is not None:
                        exp += (d2 + "elif __q%d__:\n" % els[0].id if variant else d2 + "else:\n") + d3 + "__els%d__\n" % els[0].id
                    wrap = "def f():\n\tdef g():\n"
                    cases.append(Case(pre + "_generate_conditionals/%s%s" % (name, ".elif-tail" if variant else ""), GFN + "_generate_conditionals",
                                      "%s clause: `%s <predicate>:` + true branch one level deeper + the rest of the chain as its else/elif clauses" % (ct, ct.lower()),
                                      wrap + head + real, wrap + head + exp, ("C02", "C07", "C14"), note={"conditional": ct, "false_branch": fb_kind}))
    run("conditionals", "_generate_conditionals", ("C02", "C07", "C14", "C03"), conds)

    # ---- G. key definition ---------------------------------------------------------------------------------------
    def keys():
        for salt_kind in ("none", "str"):
            for f_kind in ("none", "empty", "list"):
                ex = G.executor(contracts_except("generate_key_definition"))
                salt = None if salt_kind == "none" else S.Sym("salt", "str")
                F = None if f_kind == "none" else ([] if f_kind == "empty" else S.Sym("F", "list", nonempty=True))
                node = S.Node("ExperimentAST", id=S.Sym("id", "ident"), splitting_fields=F, salt=salt, conditions=S.Sym("C", "node:cond"))
                me = G.me(ast_node=node)
                t = ex.call_method("generate_key_definition", me, [])
                name = "salt=%s,splitters=%s" % (salt_kind, f_kind)
                lv = me.attrs["_local_vars"]
                if f_kind != "list":
                    struct_obl("generate_key_definition/%s.no-key" % name, "generate_key_definition", "without splitter fields there is no key (the expression `None`) and no splitter parameter",
                               t == "None" and not lv.atoms, "%r %r" % (t, lv), ("C09", "C12", "C01"))
                    continue
                struct_obl("generate_key_definition/%s.key-is-an-expression" % name, "generate_key_definition", "with splitter fields the key is a str expression, never `None` (the random branch is unreachable)",
                           isinstance(t, S.Tmpl) and t.definitely_nonempty() and t != "None", repr(t), ("C01", "C15", "C12"))
                struct_obl("generate_key_definition/%s.splitters-recorded" % name, "generate_key_definition", "_local_vars == set(splitting_fields) afterwards (every splitter becomes a parameter, nothing else)",
                           len(lv.atoms) == 1 and lv.atoms[0][0] == "of" and lv.atoms[0][1] is F, repr(lv), ("C09", "C07", "C12"))
                if isinstance(t, str):
                    continue
                if salt is not None:
                    raw = raw_quote_site(t, only=salt)
                    if raw is not None:
                        out.append(raw_obligation(pre + "generate_key_definition/%s.salt-raw-quoting" % name, "generate_key_definition", raw, ctx, ("C13", "C05", "C12", "C15")))
                for i, (names, _) in enumerate(NAME_SETS):
                    for j, sv in enumerate(STR_POOL if salt is not None else [None]):
                        if salt is not None and i > 0 and j > 2:
                            continue
                        vals = {F.id: names, node.fields["id"].id: "exp"}
                        if salt is not None:
                            vals[salt.id] = sv
                        I = T.Interp(vals, placeholder=placeholder)
                        real = T.render(t, I)
                        if I.havoc:
                            struct_obl("generate_key_definition/%s.deterministic-order[%d]" % (name, i), "generate_key_definition", "the key does not depend on set iteration order", False,
                                       str(I.havoc), ("C01", "C12", "C09"), model={"havoc": I.havoc})
                        prog = None
                        try:
                            from spec import dsl_ref
                            prog = "def e { %s splitters: %s return \"A\" weighted 1, \"B\" weighted 1, \"C\" weighted 2 }" % (("salt: %s" % dsl_ref.q(sv)) if sv is not None else "", ", ".join(names))
                        except Exception:   # noqa
                            prog = None
                        cases.append(Case(pre + "generate_key_definition/%s[%d,%d]" % (name, i, j), GFN + "generate_key_definition",
                                          "key == <salt literal> + ''.join(map(str, [splitters in alphabetical order, distinct]))", real, D.key_expr(sv, names),
                                          ("C12", "C09", "C01", "C13", "C15", "C05"), mode="eval", note={"salt": sv, "splitters": names, "program": prog}, replay=case_replay))
    run("keys", "generate_key_definition", ("C12", "C09", "C01", "C13", "C15", "C05", "C07"), keys)

    # ---- H. generate ---------------------------------------------------------------------------------------------
    def gen():
        for expose in (False, True):
            for f_kind in ("list", "none"):
                ex = G.executor(contracts_except("generate"))
                F = S.Sym("F", "list", nonempty=True) if f_kind == "list" else None
                idn = S.Sym("id", "ident")
                C = S.Sym("C", "node:cond")
                node = S.Node("ExperimentAST", id=idn, splitting_fields=F, salt=S.Sym("salt", "str"), conditions=C)
                me = G.me(expose=expose, ast_node=node)
                t = ex.call_method("generate", me, [])
                name = "%s,splitters=%s" % ("exposed" if expose else "nested", f_kind)
                blk = [h for h in S.Tmpl([t]).holes() if h.kind == "Block"]
                struct_obl("generate/%s.body-rendered-once" % name, "generate", "the condition tree is rendered exactly once, below the helper's signature",
                           len(blk) == 1 and blk[0].payload is C and blk[0].kw["depth"].absolute == (1 if expose else 2), repr(blk), ("C02", "C14", "C10"))
                keyh = [h for h in S.Tmpl([t]).holes() if h.kind == "KeyExpr"]
                struct_obl("generate/%s.single-key-applied-to-the-routed-partial" % name, "generate", "one key expression per experiment, applied to whatever the routing returns",
                           (len(keyh) == 1) if f_kind == "list" else ("(None)" in repr(t)), repr(keyh), ("C10", "C09", "C12"))
                if len(blk) != 1:
                    continue
                idsym = next((a[1] for a in me.attrs["_conditional_ids"].atoms if a[0] == "ids"), None)
                for i, (names, cids) in enumerate(NAME_SETS):
                    for eid in (["exp"] if i else ["exp", "my_experiment", "E1"]):
                        vals = {idn.id: eid}
                        if F is not None:
                            vals[F.id] = names
                        if idsym is not None:
                            vals[("ids", idsym.id)] = set(cids)
                        I = T.Interp(vals, placeholder=placeholder)
                        real = T.render(t, I)
                        body = "\t" * (1 if expose else 2) + "__blk%d__\n" % blk[0].id
                        exp = D.module(eid, names if F is not None else [], cids, "__key__" if F is not None else "None", body, None, expose)
                        spl = ", ".join(names)
                        cond = " and ".join("%s == 1" % c for c in sorted(cids))
                        prog = ("def %s { splitters: %s %s }" % (eid, spl, ('if %s { return "A" weighted 1 } else { return "B" weighted 1 }' % cond) if cids else 'return "A" weighted 1')) if F is not None else None
                        cases.append(Case(pre + "generate/%s[%d,%s]" % (name, i, eid), GFN + "generate",
                                          "module skeleton: def <id>(<distinct splitters U condition fields>, **kwargs), helper %s, trailing raise, helper called by keyword and applied to the key" % ("at module level" if expose else "nested"),
                                          real, exp, ("C14", "C07", "C09", "C02", "C12"), mode="exec-sortparams", note={"splitters": names, "condition_fields": sorted(cids), "id": eid, "layout": "exposed" if expose else "nested", "program": prog},
                                          replay=case_replay))
                        if I.havoc:
                            struct_obl("generate/%s.deterministic-order[%d]" % (name, i), "generate", "the generated text does not depend on set iteration order", False, str(I.havoc),
                                       ("C01", "C09"), model={"havoc": I.havoc})
    run("generate", "generate", ("C14", "C07", "C09", "C02", "C12", "C10", "C01"), gen)

    # ---- I. identifiers as Python names (C07 / C14 name capture) ------------------------------------------------------
    out.extend(identifier_obligations(pre, cases))
    out.extend(depth_obligations(pre))

    # ---- oracle -----------------------------------------------------------------------------------------------------
    if cases:
        try:
            res = native.one({"cmd": "parse_oracle", "cases": [{"real": c.real, "expected": c.expected, "mode": c.mode} for c in cases]})
        except Exception:
            res = None
            out.append(Obl(pre + "oracle", GFN, "template", "parse oracle runs", status=ERROR, backend="template-oracle", detail=traceback.format_exc()[-800:], props=("C02",)))
        if res is not None:
            for c, r in zip(cases, res):
                out.append(Obl(c.oid, c.fn, "template", c.text, status=DISCHARGED if r["same"] else REFUTED, backend="template-oracle",
                               detail="real text %r\n  parses to %s\nexpected %r\n  parses to %s" % (c.real[:400], r["real"][:500], c.expected[:400], r["expected"][:500]) if not r["same"] else "ASTs equal",
                               props=c.props, model=dict(c.note or {}, real_text=c.real[:600], expected_text=c.expected[:600]) if not r["same"] else None, replay=c.replay or gen_replay))
    for o in out:
        o.props = widen(o.id, o.props)
    return out


# which further properties an obligation family of the generator serves (reviewed with tools/tagdump.py): the key expression
# and the function skeleton carry every property about WHERE a unit lands and WHAT runs; the return statement carries the
# labels, their order and their weights for every property that looks at the selected group
WIDEN = [
    (r"generate_key_definition", ("C01", "C05", "C07", "C09", "C10", "C12", "C13", "C15")),
    (r":generate/|:generate$", ("C01", "C02", "C03", "C05", "C07", "C09", "C10", "C12", "C13", "C14", "C15")),
    (r"_generate_group_return_statement|:groups", ("C07", "C09", "C14", "C15", "C16", "C03", "C10")),
    (r"_generate_conditionals|:conditionals", ("C03", "C05", "C09")),
    (r"render_topline", ("C02", "C07")),
    (r"_generate_term/.*denotes", ("C14",)),
    (r"local_vars|conditional_ids|:keys", ("C10", "C15", "C07", "C12", "C09", "C01")),
    (r"__init__|:init", ("C03", "C10", "C12")),
]


def widen(oid, props):
    import re
    extra = set()
    for pat, ps in WIDEN:
        if re.search(pat, oid):
            extra.update(ps)
    return tuple(sorted(set(props) | extra))


def _dsl_lit(v):
    from spec import dsl_ref
    return dsl_ref.lit(v)


def _spec_term(v):
    if isinstance(v, T.IdentObj):
        return ["id", v.name]
    if isinstance(v, (tuple, list)):
        return ["tuple", [_spec_term(x) for x in v]]
    return ["lit", v]


def raw_quote_site(t, only=None):
    """find  '…' + str(sym) + '…'  : a raw interpolation of a DSL string between quotes the generator adds"""
    parts = t.parts if isinstance(t, S.Tmpl) else []
    for i, p in enumerate(parts):
        if isinstance(p, S.Hole) and p.kind == "str()" and isinstance(p.payload, S.Sym) and p.payload.kind == "str" and (only is None or p.payload is only):
            before = parts[i - 1] if i > 0 and isinstance(parts[i - 1], str) else ""
            after = parts[i + 1] if i + 1 < len(parts) and isinstance(parts[i + 1], str) else ""
            q = before[-1:] if before[-1:] in ("'", '"') else None
            return {"quote": q, "before": before, "after": after}
    return None


def raw_obligation(oid, method, raw, ctx, props):
    """for ALL strings s the language can express:  quote + s + quote  is ONE Python string token denoting s"""
    s = z3.String("s")
    expressible = z3.Not(z3.Contains(s, z3.StringVal("\n")))      # DSL strings cannot contain a newline
    if raw["quote"] is None or not raw["after"].startswith(raw["quote"]):
        goal = z3.BoolVal(False)
    else:
        qt = raw["quote"]
        # a '…' token denotes its content verbatim iff the content has no quote of that kind, no backslash, no newline
        goal = z3.And(z3.Not(z3.Contains(s, z3.StringVal(qt))), z3.Not(z3.Contains(s, z3.StringVal("\\"))))
    o = Obl(oid, GFN + method, "template", "for every DSL string s: %s{s}%s is a single Python string literal denoting s" % (raw["quote"], raw["quote"]),
            decide=smt_decider([expressible], goal, ctx.tier, model_vars={"s": s}), props=props)

    def rep(ob):
        sv = native.z3str((ob.model or {}).get("s", "'"))
        from spec import dsl_ref
        try:
            lit = dsl_ref.q(sv)
        except ValueError:
            sv, lit = "'", dsl_ref.q("'")
        progs = ['def e { salt: %s splitters: uid return "A" weighted 1, "B" weighted 1 }' % lit,
                 'def e { splitters: uid if x == %s { return "A" weighted 1 } else { return "B" weighted 1 } }' % lit]
        r = native.one({"cmd": "pipeline_diff", "programs": progs, "limit": 1, "envs": 6})
        f = next((v[0] for v in r["failures"].values() if v), None)
        if f is None:
            return gen_replay(ob)
        return {"input": f, "reproduced": True, "string": sv}
    o.replay = rep
    return o


SKELETON_DOCUMENTED = {"partial", "deterministic_choice", "ExperimentConditionalFailedError", D.HELPER, "kwargs", "str", "map"}
MODULE_BOUND_DOCUMENTED = {"partial", "deterministic_choice", "ExperimentConditionalFailedError", D.HELPER}
IDRE = z3.Concat(z3.Union(z3.Range("a", "z"), z3.Range("A", "Z"), z3.Re("_")), z3.Star(z3.Union(z3.Range("a", "z"), z3.Range("A", "Z"), z3.Range("0", "9"), z3.Re("_"))))


def skeleton_names(cases):
    """names the GENERATED code itself uses / binds, computed from the rendered templates of this run"""
    used, bound = set(), set()
    for c in cases:
        if not any(k in c.oid for k in ("generate/", "generate_key_definition/", "_generate_group_return_statement/", "_generate_exception/")):
            continue
        try:
            tree = ast.parse(c.real, mode="eval" if c.mode == "eval" else "exec")
        except SyntaxError:
            continue
        note = c.note or {}
        mine = set(note.get("splitters") or []) | set(note.get("condition_fields") or []) | {note.get("id")} | {"f", "g", "x"}
        top = c.mode != "eval" and "generate/" in c.oid
        for n in ast.walk(tree):
            if isinstance(n, ast.Name) and not n.id.startswith("__") and n.id not in mine:
                used.add(n.id)
            if isinstance(n, ast.arguments) and n.kwarg is not None:
                used.add(n.kwarg.arg)
        if top:
            for n in tree.body:
                if isinstance(n, ast.FunctionDef) and n.name not in mine:
                    bound.add(n.name)
                if isinstance(n, (ast.Import, ast.ImportFrom)):
                    for a in n.names:
                        bound.add((a.asname or a.name).split(".")[0])
            for n in ast.walk(tree):
                if isinstance(n, ast.FunctionDef) and n.name not in mine:
                    used.add(n.name)
    return used, bound


CPYTHON_MAXINDENT = 100      # Parser/tokenizer.h MAXINDENT: "too many levels of indentation" from the 100th level on
DEPTH_AGREED = 96            # exclusion bound of known finding KF-C14-indentation-limit


def depth_obligations(pre):
    """C14 quantifies over ALL grammatical experiments, and the grammar puts no bound on the nesting of `if` blocks, while
    the generated text spends one indentation level per nested block on top of the layout's base depth (2 with the helper
    nested, 1 with it exposed) and CPython refuses the 100th level.  The indentation actually produced is measured on the
    real generator at a few depths; that it is `base + n` is the `_indent_depth` bookkeeping proved by the templates.
    Full obligation (refuted on the pinned tree: a recorded known finding): for every depth both layouts are within the
    limit or both are beyond it.  Restricted obligation (must hold): up to depth DEPTH_AGREED the evaluator and both module
    texts build and agree, so anything that makes the layouts differ EARLIER is a new violation."""
    probe = [1, 2, 3, 12, DEPTH_AGREED]
    try:
        rows = native.one({"cmd": "depth_probe", "depths": probe})
    except Exception as e:      # noqa
        return [Obl(pre + "module/nesting-depth-vs-cpython-indentation-limit", GFN + "generate", "template", "indentation probe", status=UNDECIDED, backend="native", detail="probe failed: %r" % (e,), props=("C14",))]
    out = []
    lin = {}
    for k in ("nested", "exposed"):
        ys = [r["indent_levels_" + k] for r in rows]
        base = ys[0] - probe[0] if ys[0] is not None else None
        lin[k] = base if base is not None and all(y == base + n for y, n in zip(ys, probe)) else None
    n = z3.Int("n")
    if lin["nested"] is None or lin["exposed"] is None:
        out.append(Obl(pre + "module/indentation-is-base-plus-nesting", GFN + "generate", "template", "the deepest indentation of the generated text is base(layout) + nesting depth",
                       status=REFUTED, backend="native+structural", detail="measured %s" % [(r["depth"], r["indent_levels_nested"], r["indent_levels_exposed"]) for r in rows], props=("C14",),
                       model={"measured": rows}, meta={"replay": {"reproduced": False, "rows": rows}}))
        return out
    s = z3.Solver()
    ok_n = lin["nested"] + n < CPYTHON_MAXINDENT
    ok_e = lin["exposed"] + n < CPYTHON_MAXINDENT
    s.add(n >= 0, ok_n != ok_e)
    w = s.model()[n].as_long() if s.check() == z3.sat else None

    def rep(ob):
        ds = sorted({w, w - 1, w + 1} if w is not None else {97, 98, 99})
        r = native.one({"cmd": "depth_probe", "depths": [d for d in ds if d >= 0]}, timeout=900)
        bad = [x for x in r if not x["same"]]
        return {"input": bad[:2], "reproduced": bool(bad), "all": [{k: v for k, v in x.items() if k != "text"} for x in r]}
    out.append(Obl(pre + "module/nesting-depth-vs-cpython-indentation-limit", GFN + "generate", "template",
                   "for every nesting depth n the two layouts are on the same side of CPython's limit of %d indentation levels (indentation = base + n, base %d nested / %d exposed)" % (CPYTHON_MAXINDENT, lin["nested"], lin["exposed"]),
                   status=REFUTED if w is not None else DISCHARGED, backend="z3", detail="witness nesting depth %r" % (w,), props=("C14",),
                   model={"nesting_depth": w, "base_nested": lin["nested"], "base_exposed": lin["exposed"], "cpython_maxindent": CPYTHON_MAXINDENT}, replay=rep))
    s2 = z3.Solver()
    s2.add(n >= 0, n <= DEPTH_AGREED, z3.Not(z3.And(ok_n, ok_e)))
    early = s2.model()[n].as_long() if s2.check() == z3.sat else None
    bad = [r for r in rows if not r["same"] or str(r["evaluator"]).startswith("compile:")]
    out.append(Obl(pre + "module/layouts-within-the-indentation-limit-up-to-depth-%d" % DEPTH_AGREED, GFN + "generate", "template",
                   "up to nesting depth %d both layouts stay below CPython's indentation limit (z3, from the measured bases), and at the probed depths %s the evaluator and both module texts build and agree "
                   "(exclusion bound of known finding KF-C14-indentation-limit)" % (DEPTH_AGREED, probe),
                   status=DISCHARGED if early is None and not bad else REFUTED, backend="z3+native", detail="first depth beyond the limit: %r; disagreeing probes: %s" % (early, [r["depth"] for r in bad]), props=("C14",),
                   model={"early_depth": early, "disagreeing": [{k: v for k, v in r.items() if k != "text"} for r in bad]},
                   meta={"replay": {"reproduced": bool(bad), "input": bad[:2]}}))
    return out


def identifier_obligations(pre, cases):
    """DSL identifiers are emitted verbatim as Python names.
    C07 full obligation: no identifier the lexer accepts is a Python keyword or a name the skeleton uses (refuted: a
    recorded known finding).  Restricted obligation (must always hold): the capturing names are exactly the
    documented ones -- a change that makes the skeleton use a further name is a NEW violation.
    C14 likewise for the experiment id vs the names the generated MODULE binds."""
    used, bound = skeleton_names(cases)
    out = []
    reserved = sorted(set(keyword.kwlist) | used)
    n = z3.String("name")

    def wit(names):
        s = z3.Solver()
        s.add(z3.InRe(n, IDRE), z3.Or(*[n == z3.StringVal(r) for r in names]) if names else z3.BoolVal(False))
        return s.model()[n].as_string() if s.check() == z3.sat else None

    def rep07(ob):
        progs = ['def e { splitters: uid if class == 1 { return "A" weighted 1 } else { return "B" weighted 1 } }',
                 'def e { splitters: uid if partial == 1 { return "A" weighted 1 } else { return "B" weighted 1 } }',
                 'def e { splitters: str return "A" weighted 1, "B" weighted 1 }']
        r = native.one({"cmd": "pipeline_diff", "programs": progs, "limit": 3, "envs": 4})
        f = [v[0] for v in r["failures"].values() if v]
        return {"input": f[:2], "reproduced": bool(f)}
    w = wit(reserved)
    out.append(Obl(pre + "identifiers/never-capture-python-names", GFN + "generate", "template",
                   "no identifier the lexer accepts is a Python keyword or a name the generated skeleton uses",
                   status=REFUTED if w else DISCHARGED, backend="z3", detail="witness identifier %r; skeleton names %s" % (w, sorted(used)), props=("C07",),
                   model={"identifier": w, "skeleton_names": sorted(used)}, replay=rep07))
    extra = sorted(used - SKELETON_DOCUMENTED)
    out.append(Obl(pre + "identifiers/capturing-names-are-the-documented-ones", GFN + "generate", "template",
                   "the names the generated skeleton uses are within %s (exclusion set of known finding KF-C07-reserved-identifiers)" % sorted(SKELETON_DOCUMENTED),
                   status=DISCHARGED if not extra else REFUTED, backend="structural", detail="skeleton uses %s" % sorted(used), props=("C07",),
                   model={"new_capturing_names": extra}, replay=rep07))

    def rep14(ob):
        r = native.one({"cmd": "module_vs_evaluator", "ids": ["partial", "deterministic_choice", D.HELPER, "exp"]})
        bad = [x for x in r if not x["same"]]
        return {"input": bad[:2], "reproduced": bool(bad)}
    w2 = wit(sorted(bound))
    out.append(Obl(pre + "module/experiment-id-never-rebinds-a-module-name", GFN + "generate", "template",
                   "no experiment id the lexer accepts equals a name the generated module binds (imports, helper): otherwise the module text rebinds it while the in-memory evaluator does not",
                   status=REFUTED if w2 else DISCHARGED, backend="z3", detail="witness id %r; module binds %s" % (w2, sorted(bound)), props=("C14",),
                   model={"experiment_id": w2, "module_bound_names": sorted(bound)}, replay=rep14))
    extra2 = sorted(bound - MODULE_BOUND_DOCUMENTED)
    out.append(Obl(pre + "module/bound-names-are-the-documented-ones", GFN + "generate", "template",
                   "the names bound at module level by the generated text are within %s (exclusion set of known finding KF-C14-experiment-id-capture)" % sorted(MODULE_BOUND_DOCUMENTED),
                   status=DISCHARGED if not extra2 else REFUTED, backend="structural", detail="module binds %s" % sorted(bound), props=("C14",),
                   model={"new_bound_names": extra2}, replay=rep14))
    return out
