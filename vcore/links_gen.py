"""Links over the lexer / grammar / models / generator (filled in as those engines are built)."""


def links_for(pid):
    return []
