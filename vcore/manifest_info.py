"""Static text for MANIFEST.json (per claimed property) and the not-applicable list."""

_PROOF_NOTE = ("Trusted: z3/cvc5, CPython's ast module, the home-made VC generator (guarded by canary mutants + bounded differentials), "
               "assumed contracts of stdlib/third-party callees (listed in evidence.trusted_base), float-as-real (A-real). "
               "Bounded stand-ins are labelled and never counted as discharged.")

INFO = {
    "C16": {"engine": "pyvc", "design_ref": "DESIGN.md 4/C16",
            "technique": "contract-based deductive verification: pyvc VCs from the real deterministic_choice body + lemmas over its contract, z3/cvc5",
            "level_text": "full functional contract of deterministic_choice (membership, interval postcondition, exceptional postconditions, frame, delegation) proved for all arguments by z3 from VCs generated from the current source; equivalence lemmas proved over the contract",
            "level_note": _PROOF_NOTE},
    "C08": {"engine": "rxvc+pyvc", "design_ref": "DESIGN.md 4/C08",
            "technique": "contract-based verification of the lexer tables: pick languages of the live master-regex tables vs the documented scanner as regular-language emptiness obligations (complete DFA procedure) + pyvc contracts on the token functions",
            "level_text": "for ALL texts: every ignored rule consumes only whitespace or one complete line comment, whitespace is always covered, the block-comment state ends exactly at the first */ and never errors, comment callbacks emit no token; decided by a complete procedure on the tables dumped from the live classes",
            "level_note": _PROOF_NOTE + " sly's tokenize loop is an assumed contract (bounded differential against the documented scanner is the labelled stand-in)."},
    "C11": {"engine": "pyvc", "design_ref": "DESIGN.md 4/C11",
            "technique": "contract-based deductive verification: representation invariant with ghost state on the real recompile/__init__/__call__ bodies, state-after-exception and frame obligations, z3",
            "level_text": "every path of recompile / __init__ / __call__ / run_experiment / parse_source (incl. every exceptional path of every callee) is proved to preserve the invariant 'behaves like a fresh evaluator of the last accepted text', to leave the instance unchanged on any exception and to write only to its own instance; histories follow by induction (paper step); a bounded history exploration on the real class is the labelled stand-in",
            "level_note": _PROOF_NOTE + " Pipeline stages (tokenize, parse, generate, compile, exec) are deterministic uninterpreted functions that may raise."},
    "C18": {"engine": "pyvc", "design_ref": "DESIGN.md 4/C18",
            "technique": "contract-based deductive verification: pyvc VCs from the real probit/confidence_interval bodies, nlsat lemmas over the contracts",
            "level_text": "probit and confidence_interval verified against algebraic textbook contracts for all n>=1, p in [0,1], confidence in (0,1); symmetry by two-run obligations; monotonicity lemmas by z3 nlsat; the normal-quantile clause only by a bounded grid (labelled)",
            "level_note": _PROOF_NOTE},
}

NOT_APPLICABLE = {
    "C04": "statistical statement about MD5's output distribution over id families: MD5 is an uninterpreted function in every contract, no pre/postcondition expresses equidistribution or independence; sampling belongs to a different technique family. Its structural preconditions (salt is a prefix of the hashed key, whole key hashed, exact interval map) are proved under C12/C03.",
}
for _p, _why in {"C01": "links not yet built (generator/evaluator)", "C02": "links not yet built", "C03": "generator alignment link not yet built",
                 "C05": "links not yet built", "C06": "links not yet built", "C07": "links not yet built", 
                 "C09": "generator link not yet built", "C10": "generator single-key link not yet built",                  "C12": "generator key link not yet built", "C13": "generator link not yet built", "C14": "generator link not yet built",
                 "C15": "generator key link not yet built", "C17": "effect scan not yet built"}.items():
    NOT_APPLICABLE.setdefault(_p, "not claimed yet (work in progress): " + _why)
