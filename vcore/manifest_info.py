"""Static text for MANIFEST.json (per claimed property) and the not-applicable list."""

_PROOF_NOTE = ("Trusted: z3/cvc5, CPython's ast module, the home-made VC generators (guarded on every run by canary mutants of the extracted code, vacuity checks and bounded differentials), "
               "assumed contracts of stdlib/third-party callees (listed in evidence.trusted_base), float-as-real (A-real). "
               "Bounded stand-ins are labelled `bounded` and never counted as discharged.")
_T = ("Template obligations are decided per constructor case by CPython's own parser on instantiated templates (deductive in structure: all paths of the real generator, induction hypothesis as callee contract; "
      "sampled in the hole contents, with an all-strings z3 obligation on every raw quoting site). sly's tokenize loop and LR driver loop are under step contracts (each path of the real loop body == scanner step / LR step; re.match, the generator protocol and LR parsing theory assumed); pydantic validation and black are assumed contracts with bounded cross-checks.")


def _e(engine, ref, technique, text, note=_PROOF_NOTE):
    return {"engine": engine, "design_ref": ref, "technique": technique, "level_text": text, "level_note": note}


INFO = {
    "C01": _e("pyvc+tmpl", "DESIGN.md 4/C01", "contract-based deductive verification: havoc-free result terms and frame obligations from pyvc VCs (z3), structural templates of the generator, effect scan",
              "determinism = no nondeterminism source reaches any result term and no call writes state that a later call reads: proved per function (binning, recompile, __call__, parse_source ownership, generator set-order discipline, sly confinement scan); process independence rests on the assumed independence of the externals; cross-process transcripts are the labelled stand-in", _PROOF_NOTE + " " + _T),
    "C02": _e("rxvc+pyvc+tmpl", "DESIGN.md 4/C02", "contract-based deductive verification along five links: regular-language obligations on the lexer tables, structural execution of the 43 grammar actions, pydantic model case analysis, generator templates vs D with CPython's parser as oracle",
              "every link between source text and executed Python is under contract: token picks == documented scanner for all texts; production set, precedence and every action == attribute grammar; models keep values; every generator constructor case parses to D(node); exec semantics assumed", _PROOF_NOTE + " " + _T),
    "C03": _e("pyvc+tmpl", "DESIGN.md 4/C03", "contract-based deductive verification: interval postcondition of deterministic_choice and range/grid postcondition of deterministic_proba (pyvc VCs, z3), lemmas over the contract, generator alignment obligation",
              "for all weight vectors and hash positions (real arithmetic): the selected index is exactly the interval index; zero-weight groups are never selected; u in [0,1) on the 2^32 grid; population and weights are emitted position-aligned in declaration order", _PROOF_NOTE),
    "C05": _e("rxvc+pyvc+tmpl", "DESIGN.md 4/C05", "contract-based deductive verification: token-function VCs (z3 strings), literal grammar actions, pydantic model case analysis on the real annotations, raw-quoting z3 obligations and literal oracle cases on the generator",
              "value and type of every literal kind are preserved by each stage: lexeme -> token value -> action -> model field -> rendered Python literal (repr contract assumed); adversarial literal pools through the parse oracle", _PROOF_NOTE + " " + _T),
    "C06": _e("rxvc+pyvc", "DESIGN.md 4/C06", "contract-based deductive verification: lexer error-equivalence (regular languages), error callbacks proved to raise on every path (pyvc), grammar table == G_ref without conflicts or error productions, recompile's None=>ParseError clause",
              "a character that starts no token reaches error() exactly where the documented scanner rejects, both error callbacks raise on all paths so recovery is dead, the grammar is the documented one and sly's tables equal an independent LALR(1) construction; the LR driver loop is under a step contract; LR parsing theory itself is assumed", _PROOF_NOTE),
    "C07": _e("rxvc+pyvc+tmpl", "DESIGN.md 4/C07", "contract-based deductive verification: whole-word keyword obligations (rxvc), model totality, generator validity obligations (distinct parameters, tuple members in scope, both layouts parse) by structural induction with the parse oracle",
              "every grammatical text lexes, every model constructor is total on grammar values, every generator constructor case yields valid Python for any nesting/chain length (induction over constructors); reserved-name identifiers are a recorded known finding whose exclusion set is itself an obligation", _PROOF_NOTE + " " + _T),
    "C08": _e("rxvc+pyvc", "DESIGN.md 4/C08", "contract-based verification of the lexer tables: pick languages of the live master-regex tables vs the documented scanner as regular-language emptiness obligations (complete DFA procedure) + pyvc contracts on the token functions",
              "for ALL texts: every ignored rule consumes only whitespace or one complete line comment, whitespace is always covered, the block-comment state ends exactly at the first */ and never errors, comment callbacks emit no token; decided by a complete procedure on the tables dumped from the live classes",
              _PROOF_NOTE + " sly's tokenize loop is under a step contract (every path of the real loop body == the documented scanner step; re.match and the generator protocol assumed); the bounded differential against the documented scanner remains as a labelled cross-check."),
    "C09": _e("tmpl+pyvc", "DESIGN.md 4/C09", "contract-based deductive verification: key / signature templates of the real generator vs D (parse oracle), __call__ forwarding contract (z3)",
              "the key expression is exactly salt + str() of the sorted distinct splitters and mentions no other name; the signature ends in **kwargs with no defaults; the helper is called by keyword; the experiment id occurs only as the def name", _PROOF_NOTE + " " + _T),
    "C10": _e("pyvc+tmpl", "DESIGN.md 4/C10", "contract-based deductive verification: position is a function of the key (contract of deterministic_proba), monotonicity lemma over the contract of deterministic_choice (z3 nonlinear), single key hole in the generator",
              "for all pairs of weight vectors ordered by prefix shares and all positions: idx' <= idx; the position term contains neither weights nor labels nor the branch", _PROOF_NOTE),
    "C11": _e("pyvc", "DESIGN.md 4/C11", "contract-based deductive verification: representation invariant with ghost state on the real recompile/__init__/__call__ bodies, state-after-exception and frame obligations, z3",
              "every path of recompile / __init__ / __call__ / run_experiment / parse_source (incl. every exceptional path of every callee) preserves 'behaves like a fresh evaluator of the last accepted text', leaves the instance unchanged on any exception and writes only its own instance; histories follow by induction (paper step)",
              _PROOF_NOTE + " Pipeline stages (tokenize, parse, generate, compile, exec) are deterministic uninterpreted functions that may raise."),
    "C12": _e("pyvc+tmpl", "DESIGN.md 4/C12", "contract-based deductive verification: exact-formula postcondition of deterministic_proba (z3, uninterpreted MD5/UTF-8) + key template vs D",
              "hash position == first 8 hex digits of md5(utf8(key)) / 2^32 for every str; key == salt then sorted distinct splitters via str(); identity of MD5 only by known answers (bounded)", _PROOF_NOTE + " " + _T),
    "C13": _e("tmpl+pyvc", "DESIGN.md 4/C13", "contract-based deductive verification: single-token obligations at every interpolation site of the real generator (z3 strings / assumed repr contract), module == D(ast) up to constants (parse oracle)",
              "every site where source-derived text enters the generated code is enumerated by structural execution and shown to produce one literal token for all contents; the rest of the module is fixed skeleton text", _PROOF_NOTE + " " + _T),
    "C14": _e("tmpl+pyvc", "DESIGN.md 4/C14", "contract-based deductive verification: generate verified for both layouts against D.module (parse oracle), generate_code call-site contract (z3), pinned exec pipeline of recompile",
              "both layouts parse to the same D up to helper placement, generate_code uses the evaluator's generator with the same arguments; experiment-id capture and CPython's 100-level indentation limit (layouts part ways at nesting depth 98) are recorded known findings whose exclusion sets are themselves obligations", _PROOF_NOTE + " " + _T),
    "C15": _e("pyvc+tmpl", "DESIGN.md 4/C15", "contract-based deductive verification: no-exception clause of deterministic_proba for every str (z3), key template is str() of each splitter",
              "no exceptional path exists in deterministic_proba for any well-formed str; keys of values that print identically are equal by congruence", _PROOF_NOTE),
    "C16": _e("pyvc", "DESIGN.md 4/C16", "contract-based deductive verification: pyvc VCs from the real deterministic_choice body + lemmas over its contract, z3/cvc5",
              "full functional contract of deterministic_choice (membership, interval postcondition, exceptional postconditions, frame, delegation) proved for all arguments from VCs generated from the current source; equivalence lemmas proved over the contract", _PROOF_NOTE),
    "C17": _e("pyvc+effect-scan", "DESIGN.md 4/C17", "contract-based frame/ownership obligations (pyvc + syntactic effect scan); schedules are not explored",
              "confinement only: objects handed to the engine are allocated in the call, no store on sly's run-time path targets class or module state, recompile publishes once after everything that can fail; thread safety follows by a paper argument under A-GIL; thread stress is a labelled bounded stand-in",
              "Interleavings are not explored (contracts cannot carry schedules). Trusted: the syntactic effect scan, A-GIL."),
    "C18": _e("pyvc", "DESIGN.md 4/C18", "contract-based deductive verification: pyvc VCs from the real probit/confidence_interval bodies, nlsat lemmas over the contracts",
              "probit and confidence_interval verified against algebraic textbook contracts for all n>=1, p in [0,1], confidence in (0,1); symmetry by two-run obligations; monotonicity lemmas by z3 nlsat; the normal-quantile clause only by a bounded grid (labelled)", _PROOF_NOTE),
}

NOT_APPLICABLE = {
    "C04": "statistical statement about MD5's output distribution over id families: MD5 is an uninterpreted function in every contract, no pre/postcondition expresses equidistribution or independence; sampling belongs to a different technique family. Its structural preconditions (salt is a prefix of the hashed key, whole key hashed, exact interval map) are proved under C12/C03.",
}
