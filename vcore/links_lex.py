"""Lexer link: rxvc obligations on the LIVE rule tables of both lexer states + pyvc contracts on the token functions."""
from __future__ import annotations

import traceback

from rxvc import dfa
from rxvc.dfa import DFA
from rxvc.picks import Tables, Picks, ref_picks, erase_marker, emptiness_obl, P
from rxvc.rx import Rule, Unsupported
from vcore.obl import Obl, DISCHARGED, REFUTED, UNDECIDED, ERROR
from vcore import native

LEXFN = "pyab_experiment.language.lexer:"
OPS = {"KW_EQ", "KW_GT", "KW_LT", "KW_GE", "KW_LE", "KW_NE", "KW_IN", "KW_NOT_IN", "KW_NOT", "KW_AND", "KW_OR", "KW_IF", "KW_ELIF", "KW_ELSE"}
LITS = {"NON_NEG_FLOAT", "NON_NEG_INTEGER", "STRING_LITERAL", "MINUS"}


ALLP = ("C02", "C05", "C06", "C07", "C08", "C09", "C12", "C13", "C15")


def tags_for(name):
    """every obligation on the scanner tables serves every property that quantifies over source TEXTS: a rule that takes
    other text than documented changes which programs are grammatical (C06, C07), where trivia may stand (C08), which
    operator / literal a text denotes (C02, C05) and what a salt or operand contains (C12, C13, C15)"""
    return ALLP


def lex_replay(o):
    w = (o.model or {}).get("witness", "")
    text = w.replace("§", "")
    real = native.one({"cmd": "tokenize", "texts": [text]})[0]
    from spec import lex_ref
    ref = lex_ref.scan(text)
    ref_j = {"status": ref[0], "tokens": [[t, v if not isinstance(v, float) else {"__float__": repr(v)}] for t, v in ref[1]] if ref[0] == "ok" else None,
             "reject_at": ref[1] if ref[0] != "ok" else None}
    real_ok = real["exc"] is None and not real["printed"]
    if ref[0] == "ok":
        same = real_ok and [[t, v] for t, v in real["tokens"]] == ref_j["tokens"]
    else:
        same = not real_ok and real["exc"] is not None
    return {"input": {"text": text, "marked": w}, "expected": ref_j, "observed": real, "reproduced": not same,
            "note": "real ExperimentLexer.tokenize vs the documented scanner (spec/lex_ref.py) on the witness text"}


def lex_replay_search(o):
    from vcore.links_sly import _lex_replay
    return _lex_replay(o)


def link_lexer(ctx):
    fn_main = LEXFN + "ExperimentLexer"
    try:
        T = ctx.memo("lex_tables", lambda: Tables(native))
    except Exception:
        return [Obl("lex:tables/dump", fn_main, "regex", "live lexer tables can be dumped", status=ERROR, backend="native",
                    detail=traceback.format_exc()[-1500:], props=ALLP)]
    return lexer_obls(T, ctx)


class _MiniCtx:
    def __init__(self):
        self.cache, self.notes = {}, []

    def memo(self, key, fn):
        if key not in self.cache:
            self.cache[key] = fn()
        return self.cache[key]


def table_canary(name, edit, expect):
    """in-memory mutation of the DUMPED tables (never of /repo): edit(dump, reparse) changes patterns / order"""
    import copy
    from vcore.properties import Canary

    def build(ctx):
        T0 = ctx.memo("lex_tables", lambda: Tables(native))
        T = copy.copy(T0)
        T.dump = copy.deepcopy(T0.dump)

        def reparse(pattern):
            return native.one({"cmd": "parse_patterns", "patterns": [pattern]})[0]
        try:
            edit(T.dump, reparse)
        except LookupError as e:
            ctx.notes.append("canary %s skipped: %s" % (name, e))
            return [Obl("canary:%s/not-applicable" % name, "table", "canary", str(e), status=REFUTED, backend="n/a")]
        return lexer_obls(T, _MiniCtx(), tag="~" + name)
    return Canary(name, build, expect + "|not-applicable")


def _rule(dump, state, name):
    for r in dump["states"][state]["rules"]:
        if r["name"] == name:
            return r
    raise LookupError("no rule %s in %s" % (name, state))


def edit_pattern(state, name, old, new):
    def edit(dump, reparse):
        r = _rule(dump, state, name)
        if old not in r["pattern"]:
            raise LookupError("pattern of %s no longer contains %r" % (name, old))
        r["pattern"] = r["pattern"].replace(old, new)
        r["tree"] = reparse(r["pattern"])
    return edit


def edit_move_before(state, name, before):
    def edit(dump, reparse):
        rules = dump["states"][state]["rules"]
        r = _rule(dump, state, name)
        b = _rule(dump, state, before)
        if rules.index(r) > rules.index(b):
            raise LookupError("%s is not before %s" % (name, before))
        rules.remove(r)
        rules.insert(rules.index(b) + 1, r)
    return edit


def lexer_obls(T, ctx, tag=""):
    out = []
    fn_main = LEXFN + "ExperimentLexer"
    fn_bc = LEXFN + "BlockComment"
    al = T.alpha
    k = al.k
    ctx.notes.append("rxvc alphabet: %(classes)d classes from %(sets)d character sets; product interpreter %(python)s, Unicode %(unicode)s" % T.alpha_info)
    states = T.dump["states"]
    allp = ALLP
    out.append(Obl("xcheck:lexer/character-set-semantics-vs-re", fn_main, "xcheck", "rxvc's reading of every character set agrees with the real `re` on class representatives + sampled code points",
                   status=DISCHARGED if not T.alpha_xcheck["mismatches"] else ERROR, backend="native-bounded", bounded=True,
                   detail=str(T.alpha_xcheck), props=allp, meta={"coverage": {"evaluations": T.alpha_xcheck["checked"]}}))
    if "ExperimentLexer" not in states:
        return [Obl("lex:tables/main-state", fn_main, "regex", "class ExperimentLexer exists", status=UNDECIDED, backend="native", detail="missing", props=allp)]
    main = states["ExperimentLexer"]
    # configuration guards of the assumed tokenize contract
    cfg_ok = main["ignore"] == "" and not main["literals"] and main["reflags"] == 0 and not main["remapping"]
    out.append(Obl("lex:main%s/" % tag + "config(ignore='',literals={},reflags=0,no remapping)", fn_main, "regex",
                   "the table-level escape hatches of sly (ignore chars, literals, flags, remapping) are unused",
                   status=DISCHARGED if cfg_ok else UNDECIDED, backend="table", detail=str({x: main[x] for x in ("ignore", "literals", "reflags", "remapping")}), props=allp))
    # the regex the scanner loop actually matches with (`cls._master_re`) is the ordered alternation of the rules rxvc reads
    for sname, st in states.items():
        want = "|".join("(?P<%s>%s)" % (r["name"], r["pattern"]) for r in st["rules"])
        flags_ok = "master_flags" not in st or (st["master_flags"] & ~32) == (st["reflags"] & ~32)       # 32 = re.UNICODE, implied for str patterns
        ok = st["master"] == want and flags_ok
        out.append(Obl("lex:%s%s/master-regex==ordered-alternation-of-the-rules" % ("main" if sname == "ExperimentLexer" else sname, tag), LEXFN + sname, "regex",
                       "the compiled master regex the scanner loop uses is (?P<rule>pattern)|... over the rule table in order, with the class's flags",
                       status=DISCHARGED if ok else REFUTED, backend="table", detail="" if ok else "master=%r expected=%r flags=%r/%r" % (st["master"][:300], want[:300], st.get("master_flags"), st["reflags"]),
                       props=allp, model=None if ok else {"witness": "", "master": st["master"][:500]}, replay=lex_replay_search))
    try:
        real_rules = [Rule(r["name"], r["pattern"], r["tree"], al) for r in main["rules"]]
        RP = ctx.memo("lex_realpicks", lambda: Picks(real_rules, al))
        FP, ref_rules = ctx.memo("lex_refpicks", lambda: ref_picks(T))
    except Unsupported as e:
        out.append(Obl("lex:main%s/" % tag + "in-subset", fn_main, "regex", "every rule pattern is inside the supported regex subset",
                       status=UNDECIDED, backend="rxvc", detail=str(e), props=allp))
        return out
    meta = {r["name"]: r for r in main["rules"]}
    allw = DFA.all_words(k, al.all())
    mk = DFA.sym(k, [al.mark])
    ws = DFA.sym(k, al.symbols(["IN", [["CATEGORY", "CATEGORY_SPACE"]]]))
    ws_chunk = dfa.cat(dfa.plus(ws), mk, allw)
    opener = "BLOCK_COMMENT_START"
    real_tok_union = DFA.empty(k)
    ign_ws = DFA.empty(k)
    ign_lc = DFA.empty(k)
    for r in real_rules:
        name = r.name
        pk = RP.pick[name]
        real_tok_union = real_tok_union | pk
        w = pk.witness()
        out.append(Obl("lex:main%s/" % tag + "%s.reachable" % name, fn_main, "regex", "rule %s is not dead (some text makes the scanner take it)" % name,
                       status=DISCHARGED if w is not None else REFUTED, backend="dfa", detail="witness %r" % (al.word(w) if w is not None else None),
                       props=ALLP, model=None if w is not None else {"witness": ""}))
        if meta[name]["ignored"]:
            # a trivia consumer: whitespace chunk or one complete line comment
            ok_lang = ws_chunk | FP["LINE_COMMENT"]
            out.append(emptiness_obl("lex:main%s/" % tag + "%s.consumes-only-trivia" % name, fn_main,
                                     "ignored rule %s only ever consumes whitespace or one complete // comment" % name,
                                     pk - ok_lang, al, ALLP, replay=lex_replay))
            ign_ws = ign_ws | (pk & ws_chunk)
            ign_lc = ign_lc | (pk & FP["LINE_COMMENT"])
            continue
        ref_name = "BLOCK_OPEN" if name == opener else name
        if ref_name not in FP:
            out.append(Obl("lex:main%s/" % tag + "%s.documented" % name, fn_main, "regex", "token type %s is in the documented table" % name,
                           status=REFUTED, backend="table", detail="not documented", props=allp, model={"witness": al.word(w or [])}, replay=lex_replay))
            continue
        tg = tags_for(name)
        out.append(emptiness_obl("lex:main%s/" % tag + "%s.real⊆ref" % name, fn_main,
                                 "whenever the real scanner takes %s with match m, the documented scanner does too" % name,
                                 pk - FP[ref_name], al, tg, replay=lex_replay))
        out.append(emptiness_obl("lex:main%s/" % tag + "%s.ref⊆real" % name, fn_main,
                                 "whenever the documented scanner takes %s with match m, the real scanner does too" % name,
                                 FP[ref_name] - pk, al, tg, replay=lex_replay))
    for tname in FP:
        if tname in ("WS", "LINE_COMMENT", "BLOCK_OPEN"):
            continue
        if tname not in RP.pick:
            out.append(Obl("lex:main%s/" % tag + "%s.implemented" % tname, fn_main, "regex", "documented token %s has a rule" % tname, status=REFUTED,
                           backend="table", detail="no rule of that name", props=tuple(sorted(set(tags_for(tname)) | {"C08", "C06"})), model={"witness": al.word(FP[tname].witness() or [])}, replay=lex_replay))
    # trivia coverage: every text the documented scanner starts with trivia on is handled by an ignored rule
    out.append(emptiness_obl("lex:main%s/" % tag + "whitespace.covered", fn_main, "a text starting with whitespace is consumed by an ignored whitespace rule",
                             erase_marker(FP["WS"], al) - erase_marker(ign_ws, al), al, ALLP, replay=lex_replay))
    out.append(emptiness_obl("lex:main%s/" % tag + "line-comment.ref⊆real", fn_main, "a complete // comment is consumed as one ignored chunk",
                             FP["LINE_COMMENT"] - ign_lc, al, ALLP, replay=lex_replay))
    # error equivalence: the scanner has no pick exactly where the documented scanner rejects
    ref_union = DFA.empty(k)
    for d in FP.values():
        ref_union = ref_union | d
    nonempty = dfa.plus(DFA.sym(k, al.all()))
    real_dom, ref_dom = erase_marker(real_tok_union, al), erase_marker(ref_union, al)
    out.append(emptiness_obl("lex:main%s/" % tag + "error.real-rejects⊆ref-rejects", fn_main, "where the real scanner calls error(), the documented scanner rejects",
                             (nonempty - real_dom) - (nonempty - ref_dom), al, ALLP, replay=lex_replay))
    out.append(emptiness_obl("lex:main%s/" % tag + "error.ref-rejects⊆real-rejects", fn_main, "where the documented scanner rejects, the real scanner calls error()",
                             (nonempty - ref_dom) - (nonempty - real_dom), al, ALLP, replay=lex_replay))
    # number syntax facts used by the token-function contracts (assumed contracts of float()/int() need them)
    dig = DFA.sym(k, al.symbols(["IN", [["CATEGORY", "CATEGORY_DIGIT"]]]))
    dot = DFA.sym(k, al.symbols(["LITERAL", 46]))
    for nm, syn in (("NON_NEG_FLOAT", dfa.cat(dfa.plus(dig), dot, dfa.plus(dig))), ("NON_NEG_INTEGER", dfa.plus(dig))):
        if nm in RP.pick:
            lang = prefix_lang(RP.pick[nm], al)
            out.append(emptiness_obl("lex:main%s/" % tag + "%s.lexeme-syntax" % nm, fn_main, "every %s lexeme has the decimal syntax float()/int() accept" % nm,
                                     lang - syn, al, ALLP, replay=lex_replay))
    # ------------------------------------------------------------------ block comment state
    if "BlockComment" in states:
        bc = states["BlockComment"]
        try:
            bc_rules = [Rule(r["name"], r["pattern"], r["tree"], al) for r in bc["rules"]]
            BP = Picks(bc_rules, al)
        except Unsupported as e:
            out.append(Obl("lex:comment%s/" % tag + "in-subset", fn_bc, "regex", "comment-state patterns inside the supported regex subset",
                           status=UNDECIDED, backend="rxvc", detail=str(e), props=ALLP))
            return out
        star_c = DFA.sym(k, al.symbols(["LITERAL", 42]))
        slash_c = DFA.sym(k, al.symbols(["LITERAL", 47]))
        nl = DFA.sym(k, al.symbols(["LITERAL", 10]))
        nonl = DFA.sym(k, [c for c in al.all() if c not in al.symbols(["LITERAL", 10])])
        close = dfa.cat(star_c, slash_c)
        has_close = dfa.cat(allw, close, allw)
        no_close = allw - has_close
        # m = x */ where the only */ of m is its suffix  (m minus its last char has no */), m on one line
        first_close = (dfa.cat(dfa.star(nonl), close)) & dfa.cat(no_close_prefix(al, close, allw), DFA.sym(k, al.all()))
        end_ok = dfa.cat(first_close, mk, allw)
        ender = "BLOCK_COMMENT_END"
        for r in bc_rules:
            pk = BP.pick[r.name]
            w = pk.witness()
            out.append(Obl("lex:comment%s/" % tag + "%s.reachable" % r.name, fn_bc, "regex", "comment-state rule %s is not dead" % r.name,
                           status=DISCHARGED if w is not None else REFUTED, backend="dfa", detail="witness %r" % (al.word(w) if w is not None else None), props=ALLP))
            if r.name == ender:
                out.append(emptiness_obl("lex:comment%s/" % tag + "END.stops-at-first-*/", fn_bc, "the END step consumes a chunk whose only `*/` is its suffix (the comment ends at the FIRST `*/`)",
                                         pk - end_ok, al, ALLP, replay=comment_replay))
                out.append(emptiness_obl("lex:comment%s/" % tag + "END.taken-when-line-has-*/", fn_bc, "if the rest of the line contains `*/`, the END step is taken (up to the first `*/`)",
                                         end_ok - pk, al, ALLP, replay=comment_replay))
            else:
                # any other step must consume a chunk without `*/` and may not split a `*/` pair
                bad = dfa.cat(has_close, mk, allw) | dfa.cat(allw, star_c, mk, slash_c, allw)
                out.append(emptiness_obl("lex:comment%s/" % tag + "%s.never-swallows-*/" % r.name, fn_bc, "a non-END step never consumes or splits a `*/`",
                                         pk & bad, al, ALLP, replay=comment_replay))
        tot = DFA.empty(k)
        for r in bc_rules:
            tot = tot | BP.pick[r.name]
        out.append(emptiness_obl("lex:comment%s/" % tag + "total(no error inside comments)", fn_bc, "every non-empty remaining text is consumed by some comment-state rule",
                                 dfa.plus(DFA.sym(k, al.all())) - erase_marker(tot, al), al, ALLP, replay=comment_replay))
    else:
        out.append(Obl("lex:comment%s/" % tag + "state-exists", fn_bc, "regex", "block comment state exists", status=UNDECIDED, backend="table", detail="no BlockComment class", props=ALLP))
    return out


def prefix_lang(pick, al):
    """{ m : m§r in pick }"""
    n = dfa.NFA(al.k)
    s, f = n.embed(pick)
    # after the marker anything may follow: accept when a final state is reachable -> compute states from which a final is reachable
    d = pick
    good = set(q for q in range(d.n) if d.acc[q])
    changed = True
    while changed:
        changed = False
        for q in range(d.n):
            if q not in good and any(d.trans[q][a] in good for a in range(d.k)):
                good.add(q)
                changed = True
    trans = []
    dead = d.n
    acc = []
    for q in range(d.n):
        row = []
        for a in range(d.k):
            row.append(dead if a == al.mark else d.trans[q][a])
        trans.append(row)
        acc.append(d.trans[q][al.mark] in good)
    trans.append([dead] * d.k)
    acc.append(False)
    return DFA(d.k, trans, acc, d.start).minimize()


def erase_marker_prefix(pick, al):   # unused helper kept for clarity
    return pick


def no_close_prefix(al, close, allw):
    """words that do not contain `*/`"""
    return allw - dfa.cat(allw, close, allw)


def comment_replay(o):
    w = (o.model or {}).get("witness", "")
    body = w.replace("§", "")
    # embed the witness as the body of a block comment between two groups
    text = 'def e { return "A" weighted 1 /*' + body + '*/ , "B" weighted 1 }'
    real = native.one({"cmd": "tokenize", "texts": [text]})[0]
    from spec import lex_ref
    ref = lex_ref.scan(text)
    same = ref[0] == "ok" and real["exc"] is None and not real["printed"] and [[t, v] for t, v in real["tokens"]] == [[t, v] for t, v in ref[1]]
    return {"input": {"text": text, "comment_state_witness": w}, "expected": {"status": ref[0], "tokens": ref[1] if ref[0] == "ok" else None},
            "observed": real, "reproduced": not same, "note": "witness placed inside a block comment between two groups"}


def tokfn_replay(contract, o):
    from vcore.native import z3str
    lex = z3str((o.model or {}).get("t.value", ""))
    name = contract.qual.split(".")[-1]
    samples = {"NON_NEG_FLOAT": ["1.5", "0.10", "007.250"], "NON_NEG_INTEGER": ["18", "007", "9007199254740993"],
               "STRING_LITERAL": ['"02134"', "'a\\b'", '"it\'s"', "''"]}.get(name, [lex])
    texts = [lex] + samples
    real = native.one({"cmd": "tokenize", "texts": texts})
    from spec import lex_ref
    for t, r in zip(texts, real):
        ref = lex_ref.scan(t)
        if ref[0] != "ok":
            continue
        got = [[a, b] for a, b in r["tokens"]]
        exp = [[a, ({"__float__": repr(b)} if isinstance(b, float) else b)] for a, b in ref[1]]
        if r["exc"] is not None or got != exp:
            return {"input": {"text": t}, "expected": exp, "observed": r, "reproduced": True}
    return {"input": {"texts": texts}, "reproduced": False}


def link_lexer_fns(ctx):
    reg = ctx.reg
    out = []
    for q, c in reg.contracts.items():
        if q.startswith("pyab_experiment.language.lexer."):
            out += c.verify()
    # every rule with a function must have a contract (no unverified token function)
    T = ctx.memo("lex_tables", lambda: Tables(native))
    for sname, st in T.dump["states"].items():
        for r in st["rules"]:
            if r["has_func"]:
                fnname = r["rule"] if r["rule"].startswith("ignore_") else r["name"]
                q = "pyab_experiment.language.lexer.%s.%s" % (sname, fnname)
                out.append(Obl("lex:%s/%s.function-under-contract" % (sname, r["name"]), LEXFN + sname + "." + fnname, "safety",
                               "token function %s.%s has a sidecar contract" % (sname, fnname),
                               status=DISCHARGED if q in reg.contracts else UNDECIDED, backend="table",
                               detail="" if q in reg.contracts else "new token function without contract", props=ALLP))
    bounded = bounded_lex(ctx, T)
    return out + bounded


def bounded_lex(ctx, T):
    """assumption cross-check of the tokenize loop: exhaustive differential real lexer vs Lex_ref on short strings"""
    from vcore.properties import bounded_obl
    al = T.alpha
    # a pool of characters that exercises every interesting class
    want = ["a", "i", "n", "o", "t", "e", "l", "s", "f", "r", "d", "0", "7", ".", ">", "<", "=", "!", " ", "\n", "\t", "/", "*", '"', "'", "_", "(", ",", "-", "@", "\u00e9", "\u0663"]
    core = ["i", "n", "o", "t", "e", "l", "s", "f", " ", "0", ".", ">", "=", "/", "*", '"', "\n", "a", "@", "\u00e9", "\\", "'", "_"]
    texts = ["order_id", "index", "not_active", "android", "x >= 1", "x <= 1", "not  in", "else  if", "elseif", "/* a */ b /* c */", "/* a\n*/*/", "'a' //x\n'b'", "1and", "1.5.3", ".5", "a=<1",
             "\"a//b\"", "'/*'", "/* ' */ 'x'", "x/**/y", "/***/", "/*/", "in\u00e9",
             '"a\\"', "'\\'", '"C:\\exp\\" x', '"\\" "b"', "\"A' weighted 1, 'B\"", "'\"y\"'", "// c\x0c x", "// c\u2028 x", "//", "x //", "x // c", '"\U0001F680"', "not_in", "in_stock", "or_",
             "/**/ x", "/*****/ x", "/* * */", "/* a */ // b\n c", "/*/ a */ b", "/*// a */ b", "/*/*/ b", "'/*' x '*/'", "\"/*\" \"*/\"", "not\tin", "not \n in"]

    def run():
        r = native.one({"cmd": "lex_diff", "pool": core, "maxlen": 3 if ctx.tier == "quick" else 4, "texts": texts}, timeout=3000)
        return r["failures"], {"evaluations": r["evaluations"], "bound": "all strings of length <= %d over %d characters + %d hand-picked texts" % (3 if ctx.tier == "quick" else 4, len(core), len(texts))}
    def run_trivia():
        r = native.one({"cmd": "trivia_diff", "seed": ctx.seed, "random_variants": 20 if ctx.tier == "quick" else 200}, timeout=3000)
        return r["failures"], {"evaluations": r["evaluations"], "programs": r["programs"], "bound": r["bound"]}
    extra = [bounded_obl("bounded:lexer/trivia-variants-same-AST", LEXFN + "ExperimentLexer", "inserting whitespace / comments at token boundaries leaves parse_source's AST unchanged",
                         ("C08",), run_trivia)]
    return extra + [bounded_obl("bounded:lexer/tokenize-vs-Lex_ref", LEXFN + "ExperimentLexer", "real tokenize == documented scanner (token types, values, rejection) on all short strings",
                        ALLP, run)]
