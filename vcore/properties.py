"""Property -> obligations.  Each property is the conjunction of the obligations (tagged with its id) of the LINKS it
depends on; a link = contracts on the real functions of one part of the pipeline + lemmas over those contracts +
bounded stand-ins (labelled).  See DESIGN.md section 4."""
from __future__ import annotations

import ast
import re

from vcore.obl import Obl, DISCHARGED, REFUTED, UNDECIDED, ERROR

A_INT = "A-int: Python int arithmetic is mathematical (exact in CPython)"
A_REAL = ("A-real: float values are modelled as real numbers; rounding in accumulate() and u*total is not modelled "
          "(exact for k/2^32 positions with integer or dyadic weights below 2^21); two of the three rounding facts this hides (a (+) w >= a and a (+) 0 == a for "
          "non-negative finite doubles) are proved in z3's FloatingPoint theory on every run, the third (0 <= u (*) t < t for normal t) stays assumed")
A_STR = "A-str: str is a sequence of code points; lone surrogates are excluded from 'any str'"
A_MD5 = "MD5HEX / UTF8 are uninterpreted functions: identity of the hash is pinned only by known-answer vectors (bounded)"
A_MODULAR = "modular verification: callers are checked against callee contracts, never callee bodies"
A_INDUCTION = "composition of per-function contracts into the end-to-end property is a paper step (DESIGN.md section 4)"


class Canary:
    def __init__(self, name, build, expect):
        self.name, self.build, self.expect = name, build, expect


def src_mutator(old, new, count=1):
    """in-memory source mutation of the EXTRACTED module (never written to /repo)"""
    olds = old if isinstance(old, (list, tuple)) else [old]
    news = new if isinstance(new, (list, tuple)) else [new]

    def mutate(tree):
        src = ast.unparse(tree)
        for o, n in zip(olds, news):
            if o not in src:
                raise LookupError("canary pattern %r not present in current source" % o)
            src = src.replace(o, n, count)
        try:
            return ast.parse(src)
        except SyntaxError as e:      # the surrounding code changed shape: the canary no longer fits
            raise LookupError("canary replacement no longer yields valid code here: %s" % e)
    return mutate


def contract_canary(name, target, old, new, expect, extra=None):
    def build(ctx):
        c = ctx.reg.contracts[target]
        try:
            mut = src_mutator(old, new)
            obls = c.verify(mutate=mut, tag="~" + name)
            if extra is not None:
                obls += extra(ctx, mut)
        except LookupError as e:
            ctx.notes.append("canary %s skipped: %s" % (name, e))
            # pattern absent (code was refactored): canary not applicable -> counts as killed-by-absence
            return [Obl("canary:%s/not-applicable" % name, target, "canary", str(e), status=REFUTED, backend="n/a")]
        return obls
    return Canary(name, build, expect + "|not-applicable")


class Prop:
    id = ""
    title = ""
    level = "proof"
    min_obligations = 1
    trusted_base = ()
    assumptions = ()
    explanation = ""

    def links(self, ctx):
        return []

    def obligations(self, ctx):
        out = []
        for link in self.links(ctx):
            try:
                obls = ctx.memo(link.__name__, lambda link=link: link(ctx))
            except Exception:     # a crashing link is a checker defect for this run, never a verdict
                import traceback
                obls = [Obl("link:%s/runs" % link.__name__, link.__name__, "safety", "the link generates its obligations", status=ERROR, backend="checker",
                            detail=traceback.format_exc()[-1500:], props=(self.id,))]
                ctx.cache[link.__name__] = obls
            for o in obls:
                if self.id in o.props:
                    out.append(o)
        return out

    def canaries(self, ctx):
        return []


# ------------------------------------------------------------------------------------------------- links

def bounded_obl(oid, fn, text, props, run):
    """a bounded stand-in: run() -> (failures:list, coverage:dict)"""
    o = Obl(oid, fn, "bounded", text, bounded=True, props=props)

    def decide():
        fails, cov = run()
        o.meta["coverage"] = cov
        if fails:
            return REFUTED, "native-bounded", {"failures": fails[:3], "coverage": cov}, {"failing_input": fails[0]}
        return DISCHARGED, "native-bounded", {"coverage": cov}, None
    o.decide = decide
    o.replay = lambda ob: {"reproduced": True, "input": (ob.model or {}).get("failing_input"),
                           "note": "found by executing the real code (bounded stand-in)"}
    return o


def link_binning(ctx):
    from contracts import binning as cb
    reg = ctx.reg
    out = []
    out += reg.contracts["pyab_experiment.binning.binning.deterministic_proba"].verify()
    out += reg.contracts["pyab_experiment.binning.binning.deterministic_choice"].verify()
    out += cb.lemmas(ctx.tier)
    from vcore import native

    def run_choice():
        r = native.one({"cmd": "choice_diff", "max_n": 4 if ctx.tier == "quick" else 5, "max_w": 3})
        return r["failures"], {"evaluations": r["evaluations"], "distinct": r["distinct"], "bound": r["bound"]}
    out.append(bounded_obl("bounded:binning/choice-vs-scheme", "pyab_experiment.binning.binning:deterministic_choice",
                           "real deterministic_choice == interval spec on all small weight vectors at boundary-adjacent grid points (real floats)",
                           ("C03", "C16", "C10", "C12", "C15"), run_choice))

    def run_ka():
        r = native.one({"cmd": "proba_known_answers", "seed": ctx.seed, "count": 300 if ctx.tier == "quick" else 5000})
        return r["failures"], {"evaluations": r["evaluations"], "bound": "RFC 1321 vectors + pseudo-random unicode keys, seed %d" % ctx.seed}
    out.append(bounded_obl("bounded:binning/md5-known-answers+scheme", "pyab_experiment.binning.binning:deterministic_proba",
                           "hashlib.md5 == independent MD5; real deterministic_proba == published scheme on sampled keys",
                           ("C12", "C15", "C01", "C03", "C10"), run_ka))
    return out


def link_stats(ctx):
    from contracts import stats as cs
    reg = ctx.reg
    out = []
    out += reg.contracts["pyab_experiment.utils.stats.probit"].verify()
    out += reg.contracts["pyab_experiment.utils.stats.confidence_interval"].verify()
    out += cs.probit_relational(reg, ctx.tier)
    out += cs.lemmas(ctx.tier)
    from vcore import native

    def run_grid():
        r = native.one({"cmd": "ci_grid"})
        fails = list(r["failures"])
        cov = {"evaluations": r["evaluations"], "bound": r["bound"]}
        # conservative z: compare with the true normal quantile (scipy lives in the tooling venv)
        try:
            from scipy.stats import norm
            worst = None
            for k, v in r["z"].items():
                a = float(k)
                q = float(norm.isf(min(a, 1 - a)))      # upper-tail quantile, accurate for tiny alpha
                if v < q * (1 - 1e-9) - 1e-12:
                    fails.append({"alpha": a, "z": v, "normal_quantile": q, "what": "z-score smaller than the true normal quantile"})
                worst = min(worst, v - q) if worst is not None else v - q
            cov["normal_quantile_points"] = len(r["z"])
            cov["min_margin_z_minus_quantile"] = worst
        except ImportError:
            cov["normal_quantile_points"] = 0
        return fails, cov
    out.append(bounded_obl("bounded:stats/grid-vs-textbook+normal-quantile", "pyab_experiment.utils.stats:confidence_interval",
                           "real helpers == textbook formulas on a grid; z >= true normal quantile on a 1/2000 alpha grid",
                           ("C18",), run_grid))
    return out


def link_evaluator(ctx):
    reg = ctx.reg
    out = []
    for q in ("pyab_experiment.utils.wraper_functions.parse_source", "pyab_experiment.utils.wraper_functions.generate_code",
              "pyab_experiment.experiment_evaluator.ParseError.__init__", "pyab_experiment.experiment_evaluator.ExperimentEvaluator.__init__",
              "pyab_experiment.experiment_evaluator.ExperimentEvaluator.recompile", "pyab_experiment.experiment_evaluator.ExperimentEvaluator.run_experiment",
              "pyab_experiment.experiment_evaluator.ExperimentEvaluator.__call__",
              "pyab_experiment.codegen.python.custom_exceptions.ExperimentConditionalFailedError.__init__"):
        out += reg.contracts[q].verify()
    # the generated functions are exec'd with the evaluator MODULE's globals: the skeleton names must be bound there to the
    # very objects the stand-alone module text imports (otherwise evaluator and module text run different helpers)
    from pyvc.contract import load_module
    want = {"partial": "functools.partial", "deterministic_choice": "pyab_experiment.binning.binning.deterministic_choice",
            "ExperimentConditionalFailedError": "pyab_experiment.codegen.python.custom_exceptions.ExperimentConditionalFailedError"}
    try:
        names = load_module("pyab_experiment.experiment_evaluator").names
        for k, q in want.items():
            got = names.get(k)
            out.append(Obl("frame:experiment_evaluator.py/binds-%s" % k, "pyab_experiment.experiment_evaluator", "frame",
                           "the evaluator module binds `%s` to %s -- the object the generated module header imports" % (k, q),
                           status=DISCHARGED if got == q else REFUTED, backend="extract", detail="bound to %s" % got, props=("C14", "C02", "C03", "C16", "C12", "C07", "C01", "C09", "C10", "C15"),
                           model={"name": k, "bound_to": got, "expected": q},
                           replay=lambda ob: __import__("vcore.links_gen", fromlist=["x"]).gen_replay(ob)))
    except OSError as e:
        out.append(Obl("frame:experiment_evaluator.py/readable", "pyab_experiment.experiment_evaluator", "frame", "module readable", status=UNDECIDED, backend="extract", detail=str(e), props=("C14",)))
    from vcore import native

    def run_lc():
        r = native.one({"cmd": "lifecycle_diff", "maxlen": 3 if ctx.tier == "quick" else 4})
        return r["failures"], {"evaluations": r["evaluations"], "sequences": r["sequences"], "bound": r["bound"]}
    out.append(bounded_obl("bounded:evaluator/lifecycle-histories", "pyab_experiment.experiment_evaluator:ExperimentEvaluator.recompile",
                           "every evaluator behaves like a fresh evaluator of its last accepted text after every bounded history",
                           ("C11", "C01"), run_lc))
    return out


# ------------------------------------------------------------------------------------------------- properties

BIN = "pyab_experiment.binning.binning."


class C03(Prop):
    id, title = "C03", "Weights partition the hash space exactly, in declared order"
    min_obligations = 10
    trusted_base = ("z3 4.x/5.x", "cvc5", "CPython ast module (extraction)", "assumed contracts: itertools.accumulate, hashlib.md5, str.encode, int(s,16); bisect.bisect_right's contract is PROVED for CPython's Lib/bisect.py with a loop invariant on every run (the C accelerator is trusted to agree)")
    assumptions = (A_INT, A_REAL, A_STR, A_MD5, A_MODULAR, A_INDUCTION,
                   "'every group whose share spans a grid point is selectable' is proved at grid level only (that some id hashes to a given grid point is a property of MD5)")
    explanation = ("contracts on deterministic_proba / deterministic_choice (interval postcondition), lemmas over the contract, "
                   "generator alignment obligations; bounded differential on real floats")

    def links(self, ctx):
        from vcore import links_gen
        from vcore.links_models import link_models
        from vcore import links_misc
        from vcore.links_lex import link_lexer_fns
        from vcore.links_gram import link_grammar
        return [link_binning, link_lexer_fns, link_grammar, link_models, link_evaluator, links_misc.link_pipeline, links_misc.link_sly_confinement, links_misc.link_lean,
                links_misc.link_thorough_binning] + links_gen.links_for("C03")

    def canaries(self, ctx):
        t = BIN + "deterministic_choice"
        tp = BIN + "deterministic_proba"
        return [contract_canary("bisect_left", t, "from bisect import bisect", "from bisect import bisect_left as bisect", r"ensures\.member\+interval"),
                contract_canary("lo=1", t, ", 0, hi)", ", 1, hi)", r"ensures\.member|pre-callee"),
                contract_canary("divisor-ffffffff", tp, "max_int = 4294967296", "max_int = 4294967295", r"ensures\.range|ensures\.grid"),
                contract_canary("total<0", t, "total <= 0.0", "total < 0.0", r"raises\.must:ValueError|ensures\.member|raises\.none")]


class C10(Prop):
    id, title = "C10", "One hash position per unit: weight changes move only units at the boundary"
    min_obligations = 8
    trusted_base = C03.trusted_base
    assumptions = (A_INT, A_REAL, A_STR, A_MD5, A_MODULAR, A_INDUCTION)
    explanation = "position is a function of the key alone (contract of deterministic_proba), interval index is a function of (u, c); monotonicity lemma over the contract"

    def links(self, ctx):
        from vcore import links_gen, links_misc
        from vcore.links_lex import link_lexer_fns
        from vcore.links_gram import link_grammar
        from vcore.links_models import link_models
        return [link_binning, link_lexer_fns, link_grammar, link_models, link_evaluator, links_misc.link_pipeline, links_misc.link_sly_confinement, links_misc.link_lean,
                links_misc.link_thorough_binning] + links_gen.links_for("C10")

    def canaries(self, ctx):
        t = BIN + "deterministic_choice"
        tp = BIN + "deterministic_proba"
        return [contract_canary("bisect_left", t, "from bisect import bisect", "from bisect import bisect_left as bisect", r"ensures\.member\+interval"),
                contract_canary("last-8-hex", tp, "digest[:8]", "digest[-8:]", r"ensures\.scheme")]


class C16(Prop):
    id, title = "C16", "The choice function honours its random.choices-style contract"
    min_obligations = 30
    trusted_base = C03.trusted_base + ("assumed contract: random.choices",)
    assumptions = (A_INT, A_REAL, A_STR, A_MD5, A_MODULAR,
                   "isfinite is an uninterpreted flag on the (real-valued) total", "random.choices itself is trusted (delegation with the same arguments is proved)")
    explanation = "full contract of deterministic_choice incl. exceptional postconditions and frame; equivalence lemmas over the contract"

    def links(self, ctx):
        from vcore import links_misc
        return [link_binning, link_evaluator, links_misc.link_sly_confinement, links_misc.link_lean, links_misc.link_thorough_binning]

    def canaries(self, ctx):
        t = BIN + "deterministic_choice"
        return [contract_canary("bisect_left", t, "from bisect import bisect", "from bisect import bisect_left as bisect", r"ensures\.member\+interval"),
                contract_canary("total<0", t, "total <= 0.0", "total < 0.0", r"raises\.must:ValueError|ensures\.member|raises\.none"),
                contract_canary("len-check-dropped", t, "if len(cum_weights) != n:", "if len(cum_weights) > n:", r"raises\.must:ValueError|raises\.none|ensures"),
                contract_canary("both-kinds-accepted", t, "elif weights is not None:", "elif False:", r"raises\.must:TypeError")]


class C18(Prop):
    id, title = "C18", "Confidence-interval helpers are well-formed, conservative and as documented"
    min_obligations = 30
    trusted_base = ("z3 (nlsat)", "cvc5", "assumed contract: math.log (ln monotone, ln 1 = 0, ln(1/x) = -ln x), x**0.5 = sqrt x, 3.14159265358979 < pi < 3.14159265358980")
    assumptions = (A_REAL, A_MODULAR,
                   "'z never smaller than the true normal quantile' is only checked on a bounded grid against scipy.stats.norm.ppf (no SMT-level definition of the normal quantile)",
                   "the z-score is pinned to sqrt(pi/8)*|logit| within 1e-12 relative (so float-precomputed constants keep verifying)")
    explanation = "contracts on probit / confidence_interval stated algebraically (centre, half-width^2), relational (two-run) obligations for symmetry, nlsat lemmas for monotonicity"

    def links(self, ctx):
        return [link_stats]

    def canaries(self, ctx):
        t = "pyab_experiment.utils.stats.confidence_interval"
        tp = "pyab_experiment.utils.stats.probit"
        return [contract_canary("n-vs-nprime", t, "n_prime = n + z ** 2", "n_prime = n + z", r"ensures\.agresti|safety"),
                contract_canary("swapped-bounds", t, "return (p_prime - interval, p_prime + interval)", "return (p_prime + interval, p_prime - interval)", r"ensures\.lower<=upper"),
                contract_canary("unknown-method-accepted", t, "elif method.lower() == 'wald':", "elif True:", r"raises\.must:NotImplementedError"),
                contract_canary("abs-dropped", tp, "abs(log(alpha / (1 - alpha)))", "log(alpha / (1 - alpha))", r"ensures\.(z==|nonneg)")]


class C11(Prop):
    id, title = "C11", "Evaluator lifecycle: recompile is atomic, repeatable and instance-local"
    min_obligations = 30
    trusted_base = ("z3", "cvc5", "assumed contracts (summaries) of the pipeline stages: sly tokenize/parse, PythonCodeGen.generate, compile, exec are deterministic functions of their arguments that may raise",
                    "assumed: MD5 is injective on the texts involved (checksum hit => same text)")
    assumptions = (A_STR, A_MODULAR,
                   "'any sequence of operations over any set of evaluators' follows from the per-operation contracts by induction on the history (paper step): every operation preserves the representation invariant I(self, accepted) and writes only to its own instance",
                   "outcome class of recompile is a function of the source text because every stage is a deterministic function (C01 obligations)")
    explanation = "representation invariant with ghost `accepted`; recompile/__init__/__call__/run_experiment/parse_source verified path by path incl. state-after-exception clauses and frame"

    def links(self, ctx):
        # which texts are invalid is the recogniser's business: the LR tables (vs an independent LALR(1) construction, no
        # defaulted accept state) serve 'an invalid recompile raises' as well
        return [link_evaluator] + _gram() + _misc("link_sly_confinement")

    def canaries(self, ctx):
        t = "pyab_experiment.experiment_evaluator.ExperimentEvaluator.recompile"
        return [contract_canary("class-level-checksum", t, "self._checksum = new_checksum", "ExperimentEvaluator._checksum = new_checksum", r"frame\.no-global|ensures\.|frame\.exception"),
                contract_canary("parse-None-swallowed", t, "raise ParseError()", "return", r"ensures\.(switches|accepted|invariant)"),
                contract_canary("checksum-before-compile", t, "code_holder = {}", "code_holder = {}\n            self._checksum = new_checksum", r"frame\.exception"),
                contract_canary("no-checksum-test", t, "if self._checksum != new_checksum:", "if True:", r"ensures\.no-op")]


A_SLY_LEX = ("sly.lex.Lexer.tokenize is under a STEP contract (no longer assumed): every path of the real loop body equals the documented scanner step (apply the current "
             "state's master regex with re.match at the index; remap; call the token function if any; drop ignored names and None results; literals; error(t) when nothing "
             "matches) on every state, and begin/push_state/pop_state are proved to switch the tables; assumed: re.Pattern.match contract, generator protocol (A-gen), "
             "token functions deterministic with self.index >= 0; the stream is the iteration of the step (induction on iterations, paper step); dropped by the extraction: the "
             "try/finally around the loop (write-back of index/lineno on exit) and the _mark/_accept/_reject closures; termination is not verified")
A_LEX_INDUCTION = ("step equivalence for every remaining text => token-stream equality for every text, by induction on the number of scanner steps (paper step; "
                   "both scanners are memoryless apart from the state)")
A_RX = ("preferred-match classification (unique / longest / shortest) of each rule under Python's backtracking semantics follows the syntactic criterion stated in rxvc/rx.py; "
        "patterns outside it are reported undecided")


class C08(Prop):
    id, title = "C08", "Comments and whitespace never change meaning"
    min_obligations = 25
    trusted_base = ("rxvc DFA procedure (complete for regular languages)", "Python's re._parser (regex parse trees) and Unicode database of the product interpreter",
                    "sly.lex.Lexer.tokenize (step contract; re.match and the generator protocol assumed)", "z3 for the token-function VCs")
    assumptions = (A_SLY_LEX, A_LEX_INDUCTION, A_RX,
                   "judgment call: an unterminated /* comment extends to the end of the text (as implemented); block comments do not nest (C style)",
                   "grammar actions read only token values (grammar link), so equal token streams give equal ASTs")
    explanation = ("both lexer states as marked regular languages: ignored rules consume only whitespace or one complete // comment, cover all whitespace, "
                   "the comment state ends exactly at the first */, never errors; token functions of the comment machinery emit no token and only push/pop the state")

    def links(self, ctx):
        return _lex() + _gram() + [link_evaluator] + _misc("link_sly_confinement", "link_pipeline")

    def canaries(self, ctx):
        from vcore.links_lex import table_canary, edit_pattern, edit_move_before
        from vcore.links_sly import loop_canary
        return [loop_canary("sly-ignored-tokens-emitted", "lex", "if tok.type in _ignored_tokens:", "if False:", r"sly\.lex\.Lexer\.tokenize~.*refines"),
                table_canary("greedy-comment-end", edit_pattern("BlockComment", "BLOCK_COMMENT_END", ".*?", ".*"), r"lex:comment~.*END"),
                table_canary("empty-line-comment-unsupported", edit_pattern("ExperimentLexer", "inline_comment", ".*", ".+"), r"lex:main~.*(inline_comment|line-comment)"),
                table_canary("ws-before-newline-rule-removed", edit_pattern("ExperimentLexer", "ws", r"\s+", r"\n+"), r"lex:main~.*(whitespace.covered|error)")]


A_SLY_YACC = ("sly.yacc.Parser.parse is under a STEP contract (no longer assumed): the real prologue establishes the LR configuration invariant and every path of the real loop "
              "body equals the textbook LR(1) driver step with default reductions (shift / reduce with the action's value / accept / error() call) on every configuration; "
              "assumed: LR well-formedness of configurations (from the tables, which the lr:* obligations validate against an independent LALR(1) construction), grammar actions "
              "deterministic, LR parsing theory (a run of the LR machine on correct tables yields the unique parse selected by the precedence rules; paper step); recovery after "
              "error() is unreachable because error() raises (discharged separately) and is not covered; the position side tables (_line_positions/_index_positions) are "
              "outside the contract; termination is not verified")
A_PYDANTIC = "assumed pydantic-v1 validation model (spec/pydantic_model.py), cross-checked against the real classes on an exemplar pool on every run"
A_SUBST = ("A-subst: a parenthesised expression, a literal token, a non-keyword NAME and a run of complete statement lines at a deeper uniform indentation can replace a placeholder "
           "of the same kind without changing the rest of CPython's parse tree (up to CPython's nesting limits)")
A_EXEC = "A-exec: exec(compile(src)) defines the functions ast.parse(src) contains; CPython evaluates Compare/BoolOp/UnaryOp/If/Return/Raise/Call with their documented semantics"
A_REPR = "assumed: ast.literal_eval(repr(x)) == x with the same type for int, finite float and str; str(list) renders each member with repr"
A_ORACLE = "template obligations are decided per constructor case by CPython's own parser on instantiated templates (backend template-oracle): deductive in structure (all paths, induction hypothesis as callee contract), sampled in the hole contents"
TB_GEN = ("CPython parser (parse oracle)", "z3 (strings)", "structural executor pyvc/struct.py", "spec D / Lex_ref / G_ref written from the documentation")


def _lex():
    from vcore.links_lex import link_lexer, link_lexer_fns
    from vcore.links_sly import link_sly_lex_loop
    return [link_lexer, link_lexer_fns, link_sly_lex_loop]


def _gram():
    from vcore.links_gram import link_grammar
    from vcore.links_sly import link_sly_parse_loop
    return [link_grammar, link_sly_parse_loop]


def _models():
    from vcore.links_models import link_models
    return [link_models]


def _gen():
    from vcore.links_gen import link_generator
    return [link_generator]


def _misc(*names):
    from vcore import links_misc
    return [getattr(links_misc, n) for n in names]


def gen_canary(name, old, new, expect):
    def build(ctx):
        from vcore.links_gen import link_generator
        try:
            mut = src_mutator(old, new)
            from pyvc.contract import load_module
            load_module("pyab_experiment.codegen.python.python_generator", mut)
        except LookupError as e:
            ctx.notes.append("canary %s skipped: %s" % (name, e))
            return [Obl("canary:%s/not-applicable" % name, "generator", "canary", str(e), status=REFUTED, backend="n/a")]
        return link_generator(ctx, mutate=mut, tag="~" + name)
    return Canary(name, build, expect + "|not-applicable")


def gram_canary(name, old, new, expect):
    def build(ctx):
        from vcore.links_gram import link_grammar
        try:
            mut = src_mutator(old, new)
            from pyvc.contract import load_module
            load_module("pyab_experiment.language.grammar", mut)
        except LookupError as e:
            ctx.notes.append("canary %s skipped: %s" % (name, e))
            return [Obl("canary:%s/not-applicable" % name, "grammar", "canary", str(e), status=REFUTED, backend="n/a")]
        return link_grammar(ctx, mutate=mut, tag="~" + name)
    return Canary(name, build, expect + "|not-applicable")


def gram_table_canary(name, edit, expect):
    """in-memory mutation of the DUMPED parser tables"""
    def build(ctx):
        import copy
        from vcore.links_gram import link_grammar
        from vcore.links_lex import _MiniCtx
        from vcore import native
        T0 = ctx.memo("parser_tables", lambda: native.one({"cmd": "parser_tables"}))
        T = copy.deepcopy(T0)
        edit(T)
        c2 = _MiniCtx()
        c2.cache["parser_tables"] = T
        c2.reg, c2.tier = ctx.reg, ctx.tier
        return link_grammar(c2, tag="~" + name)
    return Canary(name, build, expect + "|not-applicable")


def model_canary(name, old, new, expect):
    def build(ctx):
        from vcore.links_models import link_models
        try:
            mut = src_mutator(old, new)
            from pyvc.contract import load_module
            load_module("pyab_experiment.data_structures.syntax_tree", mut)
        except LookupError as e:
            ctx.notes.append("canary %s skipped: %s" % (name, e))
            return [Obl("canary:%s/not-applicable" % name, "models", "canary", str(e), status=REFUTED, backend="n/a")]
        return link_models(ctx, mutate=mut, tag="~" + name)
    return Canary(name, build, expect + "|not-applicable")


class C01(Prop):
    id, title = "C01", "Assignment is a pure, process-independent function of source and inputs"
    min_obligations = 40
    trusted_base = ("z3", "structural executor", "CPython parser (parse oracle)", "effect scan (syntactic frame analysis of sly and first-party modules)",
                    "assumed: hashlib/str.encode/int/str/repr/sorted are hash-seed-, locale- and cwd-independent; sly's table construction is semantically deterministic")
    assumptions = (A_STR, A_MD5, A_MODULAR, A_INDUCTION, A_ORACLE,
                   "determinism is proved as 'no havoc term in any result' + frame obligations; process independence additionally rests on the assumed process-independence of the externals",
                   "cross-process transcripts are a bounded stand-in")
    explanation = "havoc-free result terms + frames on binning, recompile, __call__, parse_source; sorted-set discipline and key-is-an-expression in the generator; confinement scan; cross-process transcripts (bounded)"

    def links(self, ctx):
        return [link_binning, link_evaluator] + _gram() + _gen() + _misc("link_sly_confinement", "link_transcripts", "link_pipeline")

    def canaries(self, ctx):
        return [gen_canary("unsorted-local-vars", "return sorted(self._local_vars)", "return list(self._local_vars)", r"local_vars/==sorted|deterministic-order|generate_key_definition/.*\["),
                contract_canary("hash-builtin", BIN + "deterministic_proba", "high_bits = int(digest[:8], 16)", "high_bits = hash(input_string) % 4294967296", r"frame\.no-havoc|ensures\.scheme"),
                contract_canary("module-level-lexer", "pyab_experiment.utils.wraper_functions.parse_source", ["lexer = ExperimentLexer()\n", "def parse_source("], ["lexer = _LEXER\n", "_LEXER = ExperimentLexer()\n\n\ndef parse_source("], r"ownership")]


class C02(Prop):
    id, title = "C02", "Compiled routing equals the DSL's if / else-if / else and operator semantics"
    min_obligations = 150
    trusted_base = TB_GEN + ("rxvc DFA procedure", "sly.lex / sly.yacc driver loops (step contracts; LR theory, re.match, generator protocol assumed)", "pydantic (assumed model)")
    assumptions = (A_SLY_LEX, A_LEX_INDUCTION, A_RX, A_SLY_YACC, A_PYDANTIC, A_SUBST, A_EXEC, A_ORACLE, A_INDUCTION,
                   "PyEval o D = Route holds by construction of D (Compare/BoolOp/UnaryOp/If nodes with Python's documented semantics); sanity-tested by the bounded pipeline differential")
    explanation = "five links: lexer tables == documented scanner; grammar tables and 43 action bodies == attribute grammar; models keep values; every generator constructor case parses to D(node); exec semantics assumed"

    def links(self, ctx):
        return _lex() + _gram() + _models() + _gen() + [link_evaluator] + _misc("link_pipeline", "link_sly_confinement")

    def canaries(self, ctx):
        from vcore.links_lex import table_canary, edit_move_before
        from vcore.links_sly import loop_canary
        return [loop_canary("sly-goto-from-wrong-state", "parse", "goto[statestack[-1]][pname]", "goto[statestack[-2]][pname]", r"sly\.yacc\.Parser\.parse~.*refines"),
                table_canary("gt-before-ge", edit_move_before("ExperimentLexer", "KW_GE", "KW_GT"), r"lex:main~.*KW_G"),
                gen_canary("and-or-swapped", "case BooleanOperatorEnum.AND:\n                return 'and'", "case BooleanOperatorEnum.AND:\n                return 'or'", r"_generate_op/BooleanOperatorEnum.AND|Recursive.AND|injective"),
                gen_canary("elif-as-if", "{self.indent()}elif {predicate}: ", "{self.indent()}if {predicate}: ", r"_generate_conditionals~?.*ELIF|_generate_conditionals/ELIF"),
                gen_canary("true-branch-not-indented", "self._indent_depth += 1\n                true_branch_stmt", "self._indent_depth += 0\n                true_branch_stmt", r"_generate_conditionals"),
                gram_canary("term0-term1-swapped", "left_term=p.term0, logical_operator=p.logical_op, right_term=p.term1", "left_term=p.term1, logical_operator=p.logical_op, right_term=p.term0", r"action/predicate -> term logical_op term"),
                gram_canary("and-built-as-or", "boolean_operator=BooleanOperatorEnum.AND", "boolean_operator=BooleanOperatorEnum.OR", r"action/predicate -> predicate KW_AND predicate"),
                gram_table_canary("precedence-rows-swapped", lambda t: t["precedence"].update({"KW_OR": ["left", 2], "KW_AND": ["left", 1]}), r"table/precedence"),
                gram_table_canary("and-right-associative", lambda t: t["precedence"].update({"KW_AND": ["right", 2]}), r"table/precedence"),
                gram_table_canary("dangling-production", lambda t: t["productions"].append({"number": 99, "name": "predicate", "rhs": ["term"], "prec": ["right", 0], "names": ["term"], "func": None, "lineno": None}), r"table/productions")]


class C03f(C03):
    pass


class C05(Prop):
    id, title = "C05", "Literals reach run time with their exact value and type"
    min_obligations = 60
    trusted_base = TB_GEN + ("rxvc DFA procedure", "pydantic (assumed model)", "assumed: float()/int() of a decimal lexeme are value-exact; repr round-trips")
    assumptions = (A_INT, A_SLY_LEX, A_RX, A_SLY_YACC, A_PYDANTIC, A_REPR, A_SUBST, A_ORACLE,
                   "stated domain: integer literals up to CPython's 4300-digit int<->str limit; decimal literals that denote finite doubles")
    explanation = "token functions (value conversions), literal grammar actions, model case analysis with the real annotations, raw-quoting obligations and literal oracle cases in the generator"

    def links(self, ctx):
        return _lex() + _gram() + _models() + _gen() + [link_evaluator] + _misc("link_pipeline", "link_sly_confinement")

    def canaries(self, ctx):
        from vcore.links_sly import loop_canary
        return [loop_canary("sly-reduce-value-dropped", "parse", "sym.value = value", "sym.value = None", r"sly\.yacc\.Parser\.parse~.*refines"),
                model_canary("smart-union-removed", "smart_union = True\n\nclass RecursivePredicate", "smart_union = False\n\nclass RecursivePredicate", r"model~.*TerminalPredicate"),
                gen_canary("hand-quoting", "return repr(term)", "return f\"'{term}'\"", r"_generate_term/str"),
                gram_canary("minus-dropped", "return -p.NON_NEG_INTEGER", "return p.NON_NEG_INTEGER", r"action/literal -> MINUS NON_NEG_INTEGER"),
                contract_canary("string-slice-slip", "pyab_experiment.language.lexer.ExperimentLexer.STRING_LITERAL", "t.value[1:-1]", "t.value[1:]", r"ensures\.value==characters")]


class C06(Prop):
    id, title = "C06", "Text outside the grammar is rejected, never silently repaired"
    min_obligations = 60
    trusted_base = ("rxvc DFA procedure", "z3", "sly.lex / sly.yacc driver loops (step contracts; LR theory, re.match, generator protocol assumed)")
    assumptions = (A_SLY_LEX, A_LEX_INDUCTION, A_RX, A_SLY_YACC,
                   "with error() raising in both the lexer and the parser and no `error` production, sly's panic-mode recovery is dead code, so a returned AST derives the WHOLE token sequence in G_ref (uses the parse step contract)",
                   "judgment call: an unterminated /* comment extends to the end of the text")
    explanation = "lexer error-equivalence with the documented scanner + error callbacks proved to raise on every path + production set == G_ref, no conflicts, no error productions + recompile turns a None parse into ParseError"

    def links(self, ctx):
        return _lex() + _gram() + [link_evaluator] + _misc("link_pipeline", "link_sly_confinement")

    def canaries(self, ctx):
        from vcore.links_lex import table_canary, edit_pattern
        from vcore.links_sly import loop_canary
        return [loop_canary("sly-shift-on-accept-action", "parse", "if t > 0:", "if t >= 0:", r"sly\.yacc\.Parser\.parse~.*refines"),
                loop_canary("sly-error-token-one-char", "lex", "tok.value = text[index:]", "tok.value = text[index]", r"sly\.lex\.Lexer\.tokenize~.*refines"),
                loop_canary("sly-begin-keeps-class", "lex", "self.__class__ = cls", "pass", r"sly\.lex\.Lexer~.*\.(begin|push_state|pop_state)/ensures"),
                contract_canary("lexer-error-skips", "pyab_experiment.language.lexer.ExperimentLexer.error", "raise LexError(", "print(", r"ensures\.illegal-character"),
                contract_canary("parser-error-prints", "pyab_experiment.language.grammar.ExperimentParser.error", "raise YaccError('Parse error in input. EOF')", "return None", r"ensures\.syntax-error"),
                table_canary("ignored-rule-swallows-anything", edit_pattern("ExperimentLexer", "ws", r"\s+", "."), r"lex:main~.*(consumes-only-trivia|error)"),
                contract_canary("none-parse-accepted", "pyab_experiment.experiment_evaluator.ExperimentEvaluator.recompile", "raise ParseError()", "return", r"ensures\.(accepted|switches)"),
                gram_table_canary("accept-state-defaulted", lambda t: t["lr"]["defaulted"].update({"1": 0}), r"lr/defaulted-states"),
                gram_table_canary("lr-action-perturbed", lambda t: t["lr"]["action"]["0"].update({"ID": 3}), r"lr/tables==")]


class C07(Prop):
    id, title = "C07", "Every grammatical experiment compiles and evaluates"
    min_obligations = 120
    trusted_base = TB_GEN + ("rxvc DFA procedure", "sly driver loops (step contracts; LR theory, re.match, generator protocol assumed)", "pydantic (assumed model)")
    assumptions = (A_SLY_LEX, A_RX, A_SLY_YACC, A_PYDANTIC, A_SUBST, A_EXEC, A_ORACLE, A_INDUCTION,
                   "stated precondition: every return statement has a positive total weight (C16 requires the ValueError otherwise), inputs are type-compatible, literals within the stated limits",
                   "chain length and nesting depth are covered by the induction over constructors (depth-parametric blocks), not by a bound; CPython's own nesting limits bound A-subst")
    explanation = "whole-word keywords (rxvc), constructors total on grammar values (model), generator validity: distinct parameters, identifiers inside tuples in scope, both layouts parse; identifiers that are Python keywords / skeleton names are a recorded known finding with an exclusion obligation"

    def links(self, ctx):
        return _lex() + _gram() + _models() + _gen() + [link_evaluator] + _misc("link_pipeline", "link_sly_confinement")

    def canaries(self, ctx):
        from vcore.links_lex import table_canary, edit_pattern
        from vcore.links_sly import loop_canary
        return [loop_canary("sly-reduce-pops-one-more", "parse", "del statestack[-plen:]", "del statestack[-plen - 1:]", r"sly\.yacc\.Parser\.parse~.*(refines|invariant)"),
                table_canary("keyword-without-boundary", edit_pattern("ExperimentLexer", "KW_IN", r"in\b", "in"), r"lex:main~.*(KW_IN|ID)\."),
                gen_canary("duplicate-parameters", "fn_args = sorted(self._local_vars | self._conditional_ids)", "fn_args = self.local_vars + self.conditional_ids", r"generate/.*splitters=list"),
                gen_canary("tuple-members-via-str", "members = [str(self._generate_term(member)) for member in term]", "members = [str(member) for member in term]", r"_generate_term/tuple")]


class C09(Prop):
    id, title = "C09", "Assignment depends only on salt, splitter values and the routed branch"
    min_obligations = 25
    trusted_base = TB_GEN
    assumptions = (A_SUBST, A_EXEC, A_ORACLE, A_MODULAR,
                   "'it does vary across splitter values and salts' is statistical (needs MD5 collision behaviour): only the structural half -- every splitter's str() and the salt are part of the hashed key -- is proved",
                   "a missing declared field is a TypeError because no generated parameter has a default (A-exec)")
    explanation = "key template == salt literal + ''.join(map(str,[sorted distinct splitters])) mentioning no other name; signature ends in **kwargs, parameters = splitters U condition fields; helper called by keyword; __call__ forwards **kwargs only"

    def links(self, ctx):
        return _lex() + _gram() + _gen() + [link_evaluator] + _misc("link_pipeline", "link_sly_confinement")

    def canaries(self, ctx):
        return [gen_canary("declaration-order-key", "return sorted(self._local_vars)", "return list(self._experiment_ast.splitting_fields)", r"generate_key_definition/.*\[|local_vars"),
                gen_canary("experiment-id-in-key", "composite_key = f'{salt_def}+{fields_def}'", "composite_key = f'{salt_def}+{self._experiment_ast.id!r}+{fields_def}'", r"generate_key_definition/.*\["),
                gen_canary("kwargs-dropped", "+ ['**kwargs']", "+ []", r"generate/")]


class C10f(C10):
    pass


class C12(Prop):
    id, title = "C12", "The published bucketing scheme is pinned across releases"
    min_obligations = 20
    trusted_base = ("z3", "CPython parser (parse oracle)", "independent MD5 (spec/md5_ref.py) for the known-answer stand-in")
    assumptions = (A_STR, A_MD5, A_ORACLE, A_SUBST,
                   "MD5HEX is uninterpreted: that the callee is hashlib.md5 is proved (call site), that hashlib.md5 is MD5 is only checked on known-answer vectors (bounded)")
    explanation = "deterministic_proba == HEXVAL(first 8 hex digits of MD5HEX(UTF8(key)))/2^32 (exact formula, codec, slice, divisor) + key template == salt first, sorted distinct splitters, str()"

    def links(self, ctx):
        return [link_binning, link_evaluator] + _lex() + _gram() + _gen() + _misc("link_pipeline", "link_sly_confinement")

    def canaries(self, ctx):
        tp = BIN + "deterministic_proba"
        return [contract_canary("last-8-hex", tp, "digest[:8]", "digest[-8:]", r"ensures\.scheme"),
                contract_canary("sha1", tp, "hashlib.md5(", "hashlib.sha1(", r"ensures\.scheme"),
                contract_canary("latin-1", tp, "encode('utf-8')", "encode('latin-1')", r"ensures\.scheme|raises"),
                gen_canary("salt-appended", "composite_key = f'{salt_def}+{fields_def}'", "composite_key = f'{fields_def}+{salt_def}'", r"generate_key_definition/.*\[")]


class C13(Prop):
    id, title = "C13", "Source text is inert data: literals cannot inject code"
    min_obligations = 20
    trusted_base = TB_GEN
    assumptions = (A_REPR, A_SUBST, A_ORACLE,
                   "every interpolation site of source-derived text in the generator is enumerated by the structural executor (all paths); raw quoting sites carry an all-strings z3 obligation, repr/str(list) sites rely on the assumed repr contract")
    explanation = "raw-hole single-token obligations at every interpolation site; generated module == D(ast) with constants as the only literal-dependent parts; exec pipeline pinned"

    def links(self, ctx):
        return _lex() + _gram() + _gen() + [link_evaluator] + _misc("link_pipeline", "link_sly_confinement")

    def canaries(self, ctx):
        return [gen_canary("salt-hand-quoted", "repr(self._experiment_ast.salt)", "f\"'{self._experiment_ast.salt}'\"", r"salt-raw-quoting|generate_key_definition/.*\["),
                gen_canary("term-hand-quoted", "return repr(term)", "return f\"'{term}'\"", r"_generate_term/str")]


class C14(Prop):
    id, title = "C14", "Generated Python source is equivalent to the in-memory evaluator"
    min_obligations = 25
    trusted_base = TB_GEN + ("black.format_str (assumed AST-preserving; the bounded module differential executes its output)",)
    assumptions = (A_SUBST, A_EXEC, A_ORACLE, "black.format_str preserves the AST (assumed; every text used by the bounded differential is executed after formatting)")
    explanation = "generate verified for both layouts against D.module (same D up to helper placement); generate_code == BLACK(GEN(PARSE(text), expose)) with the evaluator's generator class and arguments; recompile pipeline pinned; id capture is a recorded known finding with an exclusion obligation"

    def links(self, ctx):
        return _gen() + [link_evaluator] + _misc("link_pipeline", "link_sly_confinement")

    def canaries(self, ctx):
        return [gen_canary("exposed-layout-depth", "self._indent_depth = 1\n        else:", "self._indent_depth = 2\n        else:", r"generate/exposed"),
                gen_canary("missing-import", "from functools import partial{self._newline}", "{self._newline}", r"render_topline"),
                contract_canary("generate_code-other-flag", "pyab_experiment.utils.wraper_functions.generate_code", "expose_experiment_variant_function=expose_internal_fn", "expose_experiment_variant_function=True", r"ensures\.result==BLACK")]


class C15(Prop):
    id, title = "C15", "Evaluation is total over field values"
    min_obligations = 8
    trusted_base = ("z3", "CPython parser (parse oracle)", "assumed: str(v) is total for str/int/float/bool/None")
    assumptions = (A_STR, A_MD5, A_ORACLE, "int values beyond CPython's 4300-digit str() limit are outside the domain")
    explanation = "deterministic_proba has no exceptional path for any str (UTF-8 is total on well-formed str); the key expression is str() of each splitter value; equal printed values give equal keys (congruence lemma)"

    def links(self, ctx):
        return [link_binning, link_evaluator] + _lex() + _gram() + _gen() + _misc("link_pipeline", "link_sly_confinement")

    def canaries(self, ctx):
        tp = BIN + "deterministic_proba"
        return [contract_canary("ascii-codec", tp, "encode('utf-8')", "encode('ascii')", r"raises\.none:UnicodeEncodeError"),
                contract_canary("int-of-odd-slice", tp, "int(digest[:8], 16)", "int(input_string[:8], 16)", r"raises\.none|ensures")]


class C17(Prop):
    id, title = "C17", "Concurrent compilation and evaluation are thread-safe"
    level = "other"
    min_obligations = 30
    trusted_base = ("effect scan (syntactic frame analysis)", "z3 (frame VCs of recompile / parse_source)", "A-GIL")
    assumptions = ("A-GIL: an attribute store is atomic; objects reachable only from one thread's frames are not accessed by other threads",
                   "interleavings are NOT explored: what is proved is confinement (ownership of the lexer/parser objects, no class- or module-level store on the run-time path of sly, "
                   "single publication of the compiled function after everything that can fail); data-race freedom and old-or-new visibility follow by a paper argument under A-GIL",
                   "thread stress is a bounded stand-in / replay attempt only")
    explanation = ("confinement obligations: parse_source passes to the engine only objects allocated in the call; every store in sly's tokenize/parse path targets a local or the instance; "
                   "recompile writes only its own instance and publishes run_experiment once, last; no first-party module keeps mutable module-level state")

    def links(self, ctx):
        return [link_evaluator] + _misc("link_sly_confinement", "link_threads")

    def canaries(self, ctx):
        return [contract_canary("module-level-lexer", "pyab_experiment.utils.wraper_functions.parse_source", ["lexer = ExperimentLexer()\n", "def parse_source("], ["lexer = _LEXER\n", "_LEXER = ExperimentLexer()\n\n\ndef parse_source("], r"ownership"),
                contract_canary("publish-before-exec", "pyab_experiment.experiment_evaluator.ExperimentEvaluator.recompile", "fn_name = ast.id\n", "fn_name = ast.id\n            setattr(self, 'run_experiment', None)\n", r"single-publication|publication-after|exception=>")]


PROPS = {c.id: c() for c in (C01, C02, C03, C05, C06, C07, C08, C09, C10, C11, C12, C13, C14, C15, C16, C17, C18)}
