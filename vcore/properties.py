"""Property -> obligations.  Each property is the conjunction of the obligations (tagged with its id) of the LINKS it
depends on; a link = contracts on the real functions of one part of the pipeline + lemmas over those contracts +
bounded stand-ins (labelled).  See DESIGN.md section 4."""
from __future__ import annotations

import ast
import re

from vcore.obl import Obl, DISCHARGED, REFUTED, UNDECIDED, ERROR

A_INT = "A-int: Python int arithmetic is mathematical (exact in CPython)"
A_REAL = ("A-real: float values are modelled as real numbers; rounding in accumulate() and u*total is not modelled "
          "(exact for k/2^32 positions with integer or dyadic weights below 2^21)")
A_STR = "A-str: str is a sequence of code points; lone surrogates are excluded from 'any str'"
A_MD5 = "MD5HEX / UTF8 are uninterpreted functions: identity of the hash is pinned only by known-answer vectors (bounded)"
A_MODULAR = "modular verification: callers are checked against callee contracts, never callee bodies"
A_INDUCTION = "composition of per-function contracts into the end-to-end property is a paper step (DESIGN.md section 4)"


class Canary:
    def __init__(self, name, build, expect):
        self.name, self.build, self.expect = name, build, expect


def src_mutator(old, new, count=1):
    """in-memory source mutation of the EXTRACTED module (never written to /repo)"""
    def mutate(tree):
        src = ast.unparse(tree)
        if old not in src:
            raise LookupError("canary pattern %r not present in current source" % old)
        return ast.parse(src.replace(old, new, count))
    return mutate


def contract_canary(name, target, old, new, expect, extra=None):
    def build(ctx):
        c = ctx.reg.contracts[target]
        try:
            mut = src_mutator(old, new)
            obls = c.verify(mutate=mut, tag="~" + name)
            if extra is not None:
                obls += extra(ctx, mut)
        except LookupError as e:
            ctx.notes.append("canary %s skipped: %s" % (name, e))
            # pattern absent (code was refactored): canary not applicable -> counts as killed-by-absence
            return [Obl("canary:%s/not-applicable" % name, target, "canary", str(e), status=REFUTED, backend="n/a")]
        return [o for o in obls if re.search(expect, o.id)]
    return Canary(name, build, expect + "|not-applicable")


class Prop:
    id = ""
    title = ""
    level = "proof"
    min_obligations = 1
    trusted_base = ()
    assumptions = ()
    explanation = ""

    def links(self, ctx):
        return []

    def obligations(self, ctx):
        out = []
        for link in self.links(ctx):
            for o in ctx.memo(link.__name__, lambda link=link: link(ctx)):
                if self.id in o.props:
                    out.append(o)
        return out

    def canaries(self, ctx):
        return []


# ------------------------------------------------------------------------------------------------- links

def bounded_obl(oid, fn, text, props, run):
    """a bounded stand-in: run() -> (failures:list, coverage:dict)"""
    o = Obl(oid, fn, "bounded", text, bounded=True, props=props)

    def decide():
        fails, cov = run()
        o.meta["coverage"] = cov
        if fails:
            return REFUTED, "native-bounded", {"failures": fails[:3], "coverage": cov}, {"failing_input": fails[0]}
        return DISCHARGED, "native-bounded", {"coverage": cov}, None
    o.decide = decide
    o.replay = lambda ob: {"reproduced": True, "input": (ob.model or {}).get("failing_input"),
                           "note": "found by executing the real code (bounded stand-in)"}
    return o


def link_binning(ctx):
    from contracts import binning as cb
    reg = ctx.reg
    out = []
    out += reg.contracts["pyab_experiment.binning.binning.deterministic_proba"].verify()
    out += reg.contracts["pyab_experiment.binning.binning.deterministic_choice"].verify()
    out += cb.lemmas(ctx.tier)
    from vcore import native

    def run_choice():
        r = native.one({"cmd": "choice_diff", "max_n": 4 if ctx.tier == "quick" else 5, "max_w": 3})
        return r["failures"], {"evaluations": r["evaluations"], "distinct": r["distinct"], "bound": r["bound"]}
    out.append(bounded_obl("bounded:binning/choice-vs-scheme", "pyab_experiment.binning.binning:deterministic_choice",
                           "real deterministic_choice == interval spec on all small weight vectors at boundary-adjacent grid points (real floats)",
                           ("C03", "C16", "C10"), run_choice))

    def run_ka():
        r = native.one({"cmd": "proba_known_answers", "seed": ctx.seed, "count": 300 if ctx.tier == "quick" else 5000})
        return r["failures"], {"evaluations": r["evaluations"], "bound": "RFC 1321 vectors + pseudo-random unicode keys, seed %d" % ctx.seed}
    out.append(bounded_obl("bounded:binning/md5-known-answers+scheme", "pyab_experiment.binning.binning:deterministic_proba",
                           "hashlib.md5 == independent MD5; real deterministic_proba == published scheme on sampled keys",
                           ("C12", "C15"), run_ka))
    return out


def link_stats(ctx):
    from contracts import stats as cs
    reg = ctx.reg
    out = []
    out += reg.contracts["pyab_experiment.utils.stats.probit"].verify()
    out += reg.contracts["pyab_experiment.utils.stats.confidence_interval"].verify()
    out += cs.probit_relational(reg, ctx.tier)
    out += cs.lemmas(ctx.tier)
    from vcore import native

    def run_grid():
        r = native.one({"cmd": "ci_grid"})
        fails = list(r["failures"])
        cov = {"evaluations": r["evaluations"], "bound": r["bound"]}
        # conservative z: compare with the true normal quantile (scipy lives in the tooling venv)
        try:
            from scipy.stats import norm
            worst = None
            for k, v in r["z"].items():
                a = float(k)
                q = float(norm.ppf(max(a, 1 - a)))
                if v < q * (1 - 1e-9) - 1e-12:
                    fails.append({"alpha": a, "z": v, "normal_quantile": q, "what": "z-score smaller than the true normal quantile"})
                worst = min(worst, v - q) if worst is not None else v - q
            cov["normal_quantile_points"] = len(r["z"])
            cov["min_margin_z_minus_quantile"] = worst
        except ImportError:
            cov["normal_quantile_points"] = 0
        return fails, cov
    out.append(bounded_obl("bounded:stats/grid-vs-textbook+normal-quantile", "pyab_experiment.utils.stats:confidence_interval",
                           "real helpers == textbook formulas on a grid; z >= true normal quantile on a 1/2000 alpha grid",
                           ("C18",), run_grid))
    return out


def link_evaluator(ctx):
    reg = ctx.reg
    out = []
    for q in ("pyab_experiment.utils.wraper_functions.parse_source", "pyab_experiment.utils.wraper_functions.generate_code",
              "pyab_experiment.experiment_evaluator.ParseError.__init__", "pyab_experiment.experiment_evaluator.ExperimentEvaluator.__init__",
              "pyab_experiment.experiment_evaluator.ExperimentEvaluator.recompile", "pyab_experiment.experiment_evaluator.ExperimentEvaluator.run_experiment",
              "pyab_experiment.experiment_evaluator.ExperimentEvaluator.__call__"):
        out += reg.contracts[q].verify()
    from vcore import native

    def run_lc():
        r = native.one({"cmd": "lifecycle_diff", "maxlen": 3 if ctx.tier == "quick" else 4})
        return r["failures"], {"evaluations": r["evaluations"], "sequences": r["sequences"], "bound": r["bound"]}
    out.append(bounded_obl("bounded:evaluator/lifecycle-histories", "pyab_experiment.experiment_evaluator:ExperimentEvaluator.recompile",
                           "every evaluator behaves like a fresh evaluator of its last accepted text after every bounded history",
                           ("C11",), run_lc))
    return out


# ------------------------------------------------------------------------------------------------- properties

BIN = "pyab_experiment.binning.binning."


class C03(Prop):
    id, title = "C03", "Weights partition the hash space exactly, in declared order"
    min_obligations = 10
    trusted_base = ("z3 4.x/5.x", "cvc5", "CPython ast module (extraction)", "assumed contracts: itertools.accumulate, bisect.bisect, hashlib.md5, str.encode, int(s,16)")
    assumptions = (A_INT, A_REAL, A_STR, A_MD5, A_MODULAR, A_INDUCTION,
                   "'every group whose share spans a grid point is selectable' is proved at grid level only (that some id hashes to a given grid point is a property of MD5)")
    explanation = ("contracts on deterministic_proba / deterministic_choice (interval postcondition), lemmas over the contract, "
                   "generator alignment obligations; bounded differential on real floats")

    def links(self, ctx):
        from vcore import links_gen
        return [link_binning] + links_gen.links_for("C03")

    def canaries(self, ctx):
        t = BIN + "deterministic_choice"
        tp = BIN + "deterministic_proba"
        return [contract_canary("bisect_left", t, "from bisect import bisect", "from bisect import bisect_left as bisect", r"ensures\.member\+interval"),
                contract_canary("lo=1", t, ", 0, hi)", ", 1, hi)", r"ensures\.member|pre-callee"),
                contract_canary("divisor-ffffffff", tp, "max_int = 4294967296", "max_int = 4294967295", r"ensures\.range|ensures\.grid"),
                contract_canary("total<0", t, "total <= 0.0", "total < 0.0", r"raises\.must:ValueError|ensures\.member")]


class C10(Prop):
    id, title = "C10", "One hash position per unit: weight changes move only units at the boundary"
    min_obligations = 8
    trusted_base = C03.trusted_base
    assumptions = (A_INT, A_REAL, A_STR, A_MD5, A_MODULAR, A_INDUCTION)
    explanation = "position is a function of the key alone (contract of deterministic_proba), interval index is a function of (u, c); monotonicity lemma over the contract"

    def links(self, ctx):
        from vcore import links_gen
        return [link_binning] + links_gen.links_for("C10")

    def canaries(self, ctx):
        t = BIN + "deterministic_choice"
        tp = BIN + "deterministic_proba"
        return [contract_canary("bisect_left", t, "from bisect import bisect", "from bisect import bisect_left as bisect", r"ensures\.member\+interval"),
                contract_canary("last-8-hex", tp, "digest[:8]", "digest[-8:]", r"ensures\.scheme")]


class C16(Prop):
    id, title = "C16", "The choice function honours its random.choices-style contract"
    min_obligations = 30
    trusted_base = C03.trusted_base + ("assumed contract: random.choices",)
    assumptions = (A_INT, A_REAL, A_STR, A_MD5, A_MODULAR,
                   "isfinite is an uninterpreted flag on the (real-valued) total", "random.choices itself is trusted (delegation with the same arguments is proved)")
    explanation = "full contract of deterministic_choice incl. exceptional postconditions and frame; equivalence lemmas over the contract"

    def links(self, ctx):
        return [link_binning]

    def canaries(self, ctx):
        t = BIN + "deterministic_choice"
        return [contract_canary("bisect_left", t, "from bisect import bisect", "from bisect import bisect_left as bisect", r"ensures\.member\+interval"),
                contract_canary("total<0", t, "total <= 0.0", "total < 0.0", r"raises\.must:ValueError|ensures\.member"),
                contract_canary("len-check-dropped", t, "if len(cum_weights) != n:", "if len(cum_weights) > n:", r"raises\.must:ValueError|raises\.none|ensures"),
                contract_canary("both-kinds-accepted", t, "elif weights is not None:", "elif False:", r"raises\.must:TypeError")]


class C18(Prop):
    id, title = "C18", "Confidence-interval helpers are well-formed, conservative and as documented"
    min_obligations = 30
    trusted_base = ("z3 (nlsat)", "cvc5", "assumed contract: math.log (ln monotone, ln 1 = 0, ln(1/x) = -ln x), x**0.5 = sqrt x, 3.14159265358979 < pi < 3.14159265358980")
    assumptions = (A_REAL, A_MODULAR,
                   "'z never smaller than the true normal quantile' is only checked on a bounded grid against scipy.stats.norm.ppf (no SMT-level definition of the normal quantile)",
                   "the z-score is pinned to sqrt(pi/8)*|logit| within 1e-12 relative (so float-precomputed constants keep verifying)")
    explanation = "contracts on probit / confidence_interval stated algebraically (centre, half-width^2), relational (two-run) obligations for symmetry, nlsat lemmas for monotonicity"

    def links(self, ctx):
        return [link_stats]

    def canaries(self, ctx):
        t = "pyab_experiment.utils.stats.confidence_interval"
        tp = "pyab_experiment.utils.stats.probit"
        return [contract_canary("n-vs-nprime", t, "n_prime = n + z ** 2", "n_prime = n + z", r"ensures\.agresti|safety"),
                contract_canary("swapped-bounds", t, "return (p_prime - interval, p_prime + interval)", "return (p_prime + interval, p_prime - interval)", r"ensures\.lower<=upper"),
                contract_canary("unknown-method-accepted", t, "elif method.lower() == 'wald':", "elif True:", r"raises\.must:NotImplementedError"),
                contract_canary("abs-dropped", tp, "abs(log(alpha / (1 - alpha)))", "log(alpha / (1 - alpha))", r"ensures\.(z==|nonneg)")]


class C11(Prop):
    id, title = "C11", "Evaluator lifecycle: recompile is atomic, repeatable and instance-local"
    min_obligations = 30
    trusted_base = ("z3", "cvc5", "assumed contracts (summaries) of the pipeline stages: sly tokenize/parse, PythonCodeGen.generate, compile, exec are deterministic functions of their arguments that may raise",
                    "assumed: MD5 is injective on the texts involved (checksum hit => same text)")
    assumptions = (A_STR, A_MODULAR,
                   "'any sequence of operations over any set of evaluators' follows from the per-operation contracts by induction on the history (paper step): every operation preserves the representation invariant I(self, accepted) and writes only to its own instance",
                   "outcome class of recompile is a function of the source text because every stage is a deterministic function (C01 obligations)")
    explanation = "representation invariant with ghost `accepted`; recompile/__init__/__call__/run_experiment/parse_source verified path by path incl. state-after-exception clauses and frame"

    def links(self, ctx):
        return [link_evaluator]

    def canaries(self, ctx):
        t = "pyab_experiment.experiment_evaluator.ExperimentEvaluator.recompile"
        return [contract_canary("class-level-checksum", t, "self._checksum = new_checksum", "ExperimentEvaluator._checksum = new_checksum", r"frame\.no-global|ensures\.|frame\.exception"),
                contract_canary("parse-None-swallowed", t, "raise ParseError()", "return", r"ensures\.(switches|accepted|invariant)"),
                contract_canary("checksum-before-compile", t, "code_holder = {}", "code_holder = {}\n            self._checksum = new_checksum", r"frame\.exception"),
                contract_canary("no-checksum-test", t, "if self._checksum != new_checksum:", "if True:", r"ensures\.no-op")]


A_SLY_LEX = ("assumed contract of sly.lex.Lexer.tokenize: repeatedly applies the current state's master regex with re.match at the index; calls the token "
             "function if any; drops ignored names and None results; calls error(t) when nothing matches; push_state/pop_state switch tables")
A_LEX_INDUCTION = ("step equivalence for every remaining text => token-stream equality for every text, by induction on the number of scanner steps (paper step; "
                   "both scanners are memoryless apart from the state)")
A_RX = ("preferred-match classification (unique / longest / shortest) of each rule under Python's backtracking semantics follows the syntactic criterion stated in rxvc/rx.py; "
        "patterns outside it are reported undecided")


class C08(Prop):
    id, title = "C08", "Comments and whitespace never change meaning"
    min_obligations = 25
    trusted_base = ("rxvc DFA procedure (complete for regular languages)", "Python's re._parser (regex parse trees) and Unicode database of the product interpreter",
                    "sly.lex.Lexer.tokenize (assumed contract)", "z3 for the token-function VCs")
    assumptions = (A_SLY_LEX, A_LEX_INDUCTION, A_RX,
                   "judgment call: an unterminated /* comment extends to the end of the text (as implemented); block comments do not nest (C style)",
                   "grammar actions read only token values (grammar link), so equal token streams give equal ASTs")
    explanation = ("both lexer states as marked regular languages: ignored rules consume only whitespace or one complete // comment, cover all whitespace, "
                   "the comment state ends exactly at the first */, never errors; token functions of the comment machinery emit no token and only push/pop the state")

    def links(self, ctx):
        from vcore.links_lex import link_lexer, link_lexer_fns
        return [link_lexer, link_lexer_fns]

    def canaries(self, ctx):
        from vcore.links_lex import table_canary, edit_pattern, edit_move_before
        return [table_canary("greedy-comment-end", edit_pattern("BlockComment", "BLOCK_COMMENT_END", ".*?", ".*"), r"lex:comment~.*END"),
                table_canary("empty-line-comment-unsupported", edit_pattern("ExperimentLexer", "inline_comment", ".*", ".+"), r"lex:main~.*(inline_comment|line-comment)"),
                table_canary("ws-before-newline-rule-removed", edit_pattern("ExperimentLexer", "ws", r"\s+", r"\n+"), r"lex:main~.*(whitespace.covered|error)")]


PROPS = {c.id: c() for c in (C03, C08, C10, C11, C16, C18)}
