"""Obligations, results and the parallel discharge pool.

An obligation is a *named* proof goal generated from /repo's current source.  It is decided by a back end:
  z3 / cvc5  : validity of  hyps => goal  (we check unsat of hyps /\\ not goal)
  dfa        : emptiness of a regular language (complete decision procedure, rxvc)
  oracle     : CPython-parser template oracle (E1-T), finite case analysis
  lean       : ghost lemma checked by Lean 4
  native     : bounded stand-in executed on the real code (never counted as proved)
Status values: discharged | refuted | undecided | error.
`unknown`, timeouts and tracebacks are never mapped to `refuted`.
"""
from __future__ import annotations

import multiprocessing as mp
import os
import subprocess
import tempfile
import time
import traceback

DISCHARGED, REFUTED, UNDECIDED, ERROR = "discharged", "refuted", "undecided", "error"


class Obl:
    """One obligation.  `decide` is a zero-argument callable run in a forked worker returning
    (status, backend, detail, model) -- or the obligation is pre-decided (status already set)."""

    def __init__(self, oid, fn, kind, text, decide=None, bounded=False, props=(), status=None,
                 backend=None, model=None, detail="", replay=None, finding=None, meta=None):
        self.id = oid            # e.g. binning.deterministic_choice/ensures.upper[w,-]#p7
        self.fn = fn             # function under contract ("module:qualname"), or lemma:<name>, table:<name>
        self.kind = kind         # post | raises | safety | pre-callee | frame | lemma | regex | template | model | bounded | xcheck
        self.text = text         # human readable statement of the goal
        self.decide = decide
        self.bounded = bounded   # True => bounded stand-in, never counted in `discharged`
        self.props = tuple(props)
        self.status = status
        self.backend = backend
        self.model = model
        self.detail = detail
        self.time_s = 0.0
        self.replay = replay     # callable(obl) -> dict, run in the parent on refutation
        self.finding = finding   # id used to match known_findings.json entries (defaults to id)
        self.meta = meta or {}

    def to_json(self, full=False):
        d = {"id": self.id, "fn": self.fn, "kind": self.kind, "backend": self.backend, "status": self.status,
             "time_s": round(self.time_s, 4), "bounded": self.bounded}
        if full or self.status != DISCHARGED:
            d["text"] = self.text
            d["detail"] = self.detail if len(str(self.detail)) < 4000 else str(self.detail)[:4000] + "..."
            if self.model is not None:
                d["model"] = self.model
        return d


_POOL_OBLS: list = []


def _work(i):
    o = _POOL_OBLS[i]
    t0 = time.time()
    try:
        status, backend, detail, model = o.decide()
    except Exception:  # checker defect, never a violation
        status, backend, detail, model = ERROR, "checker", traceback.format_exc(), None
    return i, status, backend, detail, model, time.time() - t0


def run_all(obls, jobs=None):
    """Decide all undecided obligations, in forked workers (z3 objects are inherited through fork)."""
    global _POOL_OBLS
    todo = [o for o in obls if o.status is None]
    if not todo:
        return obls
    jobs = jobs or int(os.environ.get("VERIF_JOBS", "0")) or min(16, os.cpu_count() or 4)
    _POOL_OBLS = todo
    if jobs == 1 or len(todo) == 1:
        results = [_work(i) for i in range(len(todo))]
    else:
        ctx = mp.get_context("fork")
        with ctx.Pool(min(jobs, len(todo))) as pool:
            results = pool.map(_work, range(len(todo)), chunksize=1)
    for i, status, backend, detail, model, dt in results:
        o = todo[i]
        o.status, o.backend, o.detail, o.model, o.time_s = status, backend, detail, model, dt
        if isinstance(detail, dict) and "coverage" in detail:     # bounded stand-ins report their coverage through the worker
            o.meta["coverage"] = detail["coverage"]
    _POOL_OBLS = []
    return obls


# ---------------------------------------------------------------------------------------------
# SMT discharge

def z3_timeout_ms(tier):
    return int(os.environ.get("VERIF_Z3_MS", "120000" if tier == "thorough" else "30000"))


NO_CONTRACT_PREFIXES = ("ext:", "comp:")
SOFT_PREFIXES = ("ext:builtins.", "ext:typing.", "ext:copy.")
SOFT_MODULES = ("builtins.", "typing.", "copy.")


def _no_contract_symbols(exprs):
    import z3
    names, seen, todo = set(), set(), [e for e in exprs if z3.is_expr(e)]
    while todo:
        e = todo.pop()
        i = e.get_id()
        if i in seen:
            continue
        seen.add(i)
        if z3.is_app(e):
            n = e.decl().name()
            if n.startswith(NO_CONTRACT_PREFIXES):
                names.add(n)
            todo.extend(e.children())
        elif z3.is_quantifier(e):
            todo.append(e.body())
    return sorted(names)[:6]


def smt_decider(hyps, goal, tier="quick", model_vars=None, model_fn=None, second_solver=None, logic_note="", sat_means=None):
    """Return a decide() closure: validity of (/\\ hyps) => goal.
    model_vars: dict name -> z3 expr evaluated in the counter-model.  model_fn: custom extractor(model)."""
    import z3

    def decide():
        s = z3.Solver()
        s.set("timeout", z3_timeout_ms(tier))
        s.add(*hyps)
        s.add(z3.Not(goal))
        r = s.check()
        smt2 = None
        backend = "z3"
        if r == z3.unsat:
            status, detail, model = DISCHARGED, "unsat", None
            if (second_solver if second_solver is not None else tier == "thorough"):
                smt2 = s.to_smt2()
                r2, out2 = cvc5_cli(smt2, 60)
                if r2 == "sat":   # disagreement = checker defect
                    return ERROR, "z3+cvc5", "solver disagreement: z3 unsat, cvc5 sat\n" + out2[:500], None
                backend = "z3+cvc5" if r2 == "unsat" else "z3 (cvc5: %s)" % r2
        elif r == z3.sat:
            m = s.model()
            model = {}
            try:
                if model_fn is not None:
                    model = model_fn(m)
                elif model_vars:
                    for k, v in model_vars.items():
                        model[k] = _pyval(m, v)
            except Exception:
                model = {"_raw": str(m)[:2000], "_extract_error": traceback.format_exc()[-400:]}
            status, detail = REFUTED, "sat"
            # A counter-model that rests ONLY on what a pure builtin without an assumed contract does (`dict(kwargs)`, `list(xs)`,
            # `sorted(...)`, `typing.cast`, `copy.copy`: the calls behaviour-preserving edits are made of) -- its uninterpreted
            # result `ext:builtins.*`, or "it might raise" -- is a missing contract, not yet a counterexample: marked
            # NO-CONTRACT, and the caller (vcore/main.py) keeps it as a violation only if its replay finds a failing input on
            # the real code; otherwise it is reported undecided.  Data routed through any OTHER unmodelled function (zlib,
            # unicodedata, json, re.sub, an un-unfolded comprehension, ...) stays a refutation: the contract cannot be
            # carried through a transformation nobody vouches for.
            names = _no_contract_symbols(list(hyps) + [goal])
            soft = bool(names) and all(n.startswith(SOFT_PREFIXES) for n in names)
            if sat_means and (not names or soft):
                detail = "sat NO-CONTRACT: " + sat_means
            elif soft and not sat_means:
                detail = "sat NO-CONTRACT: the formula mentions pure builtins without an assumed contract: " + ", ".join(names)
        else:
            # z3 unknown: let cvc5 try
            smt2 = s.to_smt2()
            r2, out2 = cvc5_cli(smt2, 60 if tier == "quick" else 120)
            if r2 == "unsat":
                return DISCHARGED, "cvc5", "z3 unknown (%s); cvc5 unsat" % s.reason_unknown(), None
            status, detail, model = UNDECIDED, "z3 unknown (%s); cvc5 %s" % (s.reason_unknown(), r2), None
        return status, backend, detail, model

    return decide


def _pyval(m, v):
    import z3
    if isinstance(v, (list, tuple)) and len(v) == 2 and not z3.is_expr(v):   # (array, length) pair
        arr, n = v
        nn = m.eval(n, model_completion=True).as_long()
        nn = max(0, min(nn, 64))
        return [_pyval(m, arr[i]) for i in range(nn)]
    e = m.eval(v, model_completion=True)
    if z3.is_int_value(e):
        return e.as_long()
    if z3.is_rational_value(e):
        num, den = e.numerator_as_long(), e.denominator_as_long()
        return num if den == 1 else {"num": num, "den": den}
    if z3.is_algebraic_value(e):
        return {"approx": e.approx(12).as_decimal(12)}
    if z3.is_string_value(e):
        return e.as_string()   # z3 escapes non-printables as \u{..}; decoded by spec.util.z3str
    if z3.is_true(e):
        return True
    if z3.is_false(e):
        return False
    return str(e)


def cvc5_cli(smt2, timeout_s):
    """Run /usr/bin/cvc5 on an SMT-LIB2 text.  Returns (sat|unsat|unknown|error, raw output)."""
    exe = "/usr/bin/cvc5"
    if not os.path.exists(exe):
        return "unavailable", ""
    text = smt2
    if "(set-logic" not in text:
        text = "(set-logic ALL)\n" + text
    if "(check-sat)" not in text:
        text += "\n(check-sat)\n"
    with tempfile.NamedTemporaryFile("w", suffix=".smt2", delete=False) as f:
        f.write(text)
        path = f.name
    try:
        p = subprocess.run([exe, "--lang=smt2", "--strings-exp", "--tlimit=%d" % (timeout_s * 1000), path],
                           capture_output=True, text=True, timeout=timeout_s + 10)
        out = (p.stdout + p.stderr).strip()
        first = out.splitlines()[0].strip() if out else ""
        if first in ("sat", "unsat", "unknown"):
            return first, out
        return "error", out
    except subprocess.TimeoutExpired:
        return "unknown", "timeout"
    finally:
        os.unlink(path)
