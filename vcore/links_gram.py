"""Grammar link: the live sly grammar tables vs G_ref, and every action body (real source, structural execution)
against the attribute grammar; `error` must reject (C06)."""
from __future__ import annotations

import ast
import traceback

from pyvc import struct as S
from pyvc.contract import load_module
from vcore import native
from vcore.obl import Obl, DISCHARGED, REFUTED, UNDECIDED, ERROR

GRAM = "pyab_experiment.language.grammar"
FN = GRAM + ":ExperimentParser"
PROPS_ALL = ("C02", "C05", "C06", "C07", "C08", "C09", "C11", "C12", "C13", "C15", "C03", "C10")      # "the grammar is the documented one": everything that quantifies over grammatical programs


def norm(v):
    """executor value -> attribute term"""
    if v is None or isinstance(v, (str, int, float)):
        return v
    if isinstance(v, S.Sym) and v.kind == "attr":
        return ("attr", v.name)
    if isinstance(v, S.Node):
        return ("node", v.cls, {k: norm(x) for k, x in v.fields.items()})
    if isinstance(v, S.EnumV):
        return ("enum", v.cls, v.name)
    if isinstance(v, list):
        return ("list", [norm(x) for x in v])
    if isinstance(v, tuple) and v and v[0] == "cat":
        return ("cat", norm(v[1]), norm(v[2]))
    if isinstance(v, S.SeqT) and v.op == "cat":
        return ("cat", norm(v.args[0]), norm(v.args[1]))
    if isinstance(v, S.SeqT) and v.op == "sym":
        return norm(v.args[0])
    if isinstance(v, tuple) and v and v[0] == "neg":
        return ("neg", norm(v[1]))
    raise S.Unsupported("action result %r" % (v,))


def show(t):
    if isinstance(t, tuple) and t and t[0] == "attr":
        return "$" + t[1]
    if isinstance(t, tuple) and t and t[0] == "node":
        return "%s(%s)" % (t[1], ", ".join("%s=%s" % (k, show(v)) for k, v in sorted(t[2].items())))
    if isinstance(t, tuple) and t and t[0] == "enum":
        return "%s.%s" % (t[1], t[2])
    if isinstance(t, tuple) and t and t[0] == "list":
        return "[" + ", ".join(show(x) for x in t[1]) + "]"
    if isinstance(t, tuple) and t and t[0] == "cat":
        return "%s + %s" % (show(t[1]), show(t[2]))
    if isinstance(t, tuple) and t and t[0] == "neg":
        return "-" + show(t[1])
    return repr(t)


def parser_replay(o):
    texts = ['junk junk def e { return "A" weighted 1 }', 'def x { return } def e { return "A" weighted 1 }', 'def e { return "A" weighted 1 } }']
    res = native.one({"cmd": "compile_outcomes", "texts": texts})
    bad = [r for r in res if r["outcome"] == "compiled"]
    return {"input": {"texts": texts}, "expected": "every one of these texts is rejected (none is a sentence of the documented grammar)",
            "observed": res, "reproduced": bool(bad)}


def action_replay(o):
    r = native.one({"cmd": "pipeline_diff", "count": 120, "seed": 7, "limit": 1})
    f = r["failures"].get("ast") or r["failures"].get("routing") or r["failures"].get("compile")
    return {"input": f[0] if f else None, "reproduced": bool(f), "note": "bounded differential: real parse_source AST vs the reference parser on generated programs"}


def link_grammar(ctx, mutate=None, tag=""):
    from spec import grammar_ref as G
    out = []
    try:
        T = ctx.memo("parser_tables", lambda: native.one({"cmd": "parser_tables"}))
    except Exception:
        return [Obl("gram:tables/dump", FN, "table", "live parser tables can be dumped", status=ERROR, backend="native", detail=traceback.format_exc()[-1500:], props=PROPS_ALL)]
    ren = nonterminal_renaming(T, G)
    if ren:
        ctx.notes.append("grammar compared modulo nonterminal renaming: %s" % ren)

    def rn(x):
        return ren.get(x, x)

    def rn_attr(a):
        import re as _re
        m = _re.match(r"^(.*?)(\d+)$", a)
        if m and m.group(1) in ren:
            return ren[m.group(1)] + m.group(2)
        return ren.get(a, a)
    for p in T["productions"]:
        p["_orig"] = (p["name"], tuple(p["rhs"]))
        p["names_ref"] = [rn_attr(a) for a in p["names"]]
    real = {(rn(p["name"]), tuple(rn(x) for x in p["rhs"])): p for p in T["productions"]}
    pre = "gram%s:" % tag
    # ---- table-level obligations
    missing = sorted(set(G.G_REF) - set(real))
    extra = sorted(set(real) - set(G.G_REF))
    out.append(Obl(pre + "table/productions==G_ref", FN, "table", "the production set equals the documented grammar (modulo order)",
                   status=DISCHARGED if not missing and not extra else REFUTED, backend="table-compare",
                   detail="missing %s; extra %s" % (missing, extra), props=PROPS_ALL, model={"missing": missing, "extra": extra}, replay=parser_replay if extra else action_replay))
    prec_ok = {k: tuple(v) for k, v in T["precedence"].items()} == G.PRECEDENCE
    out.append(Obl(pre + "table/precedence(not>and>or,left)", FN, "table", "precedence table: KW_OR < KW_AND < KW_NOT, all left-associative",
                   status=DISCHARGED if prec_ok else REFUTED, backend="table-compare", detail=str(T["precedence"]), props=PROPS_ALL, model=T["precedence"], replay=action_replay))
    # per-production precedence as sly resolved it (a %prec or a renamed token would show here)
    want_prec = {("predicate", ("KW_NOT", "predicate")): ("left", 3), ("predicate", ("predicate", "KW_OR", "predicate")): ("left", 1),
                 ("predicate", ("predicate", "KW_AND", "predicate")): ("left", 2)}
    bad_prec = [k for k, p in real.items() if tuple(p["prec"]) != want_prec.get(k, ("right", 0))]
    out.append(Obl(pre + "table/production-precedences", FN, "table", "each production carries the precedence of its operator token and no other",
                   status=DISCHARGED if not bad_prec else REFUTED, backend="table-compare", detail=str(bad_prec), props=PROPS_ALL, model={"productions": [str(b) for b in bad_prec]}, replay=action_replay))
    out.append(Obl(pre + "table/start==header", FN, "table", "start symbol", status=DISCHARGED if T["start"] == G.START else REFUTED,
                   backend="table-compare", detail=T["start"], props=PROPS_ALL))
    out.append(Obl(pre + "table/no-conflicts", FN, "table", "the LALR(1) table has no shift/reduce or reduce/reduce conflict left to a default (premise of the assumed sly contract)",
                   status=DISCHARGED if not T["sr_conflicts"] and not T["rr_conflicts"] else REFUTED, backend="table-compare",
                   detail="sr=%s rr=%s" % (T["sr_conflicts"], T["rr_conflicts"]), props=PROPS_ALL, model={"sr": T["sr_conflicts"], "rr": T["rr_conflicts"]}, replay=action_replay))
    out.append(Obl(pre + "table/no-error-productions", FN, "table", "no production mentions sly's `error` token (no grammar-level recovery)",
                   status=DISCHARGED if not T["has_error_productions"] else REFUTED, backend="table-compare", detail="", props=PROPS_ALL, replay=parser_replay))
    # ---- the LR tables sly generated vs an INDEPENDENT LALR(1) construction from G_ref (translation validation of the
    #      table generator; the LR driver loop itself stays an assumed contract)
    out.extend(lr_table_obligations(T, G, pre, rn))
    out.extend(accessor_obligations(T, pre))
    if mutate is None and not tag:
        out.extend(hash_seed_obligations(T, G, pre, rn))
    # ---- error(): must be a first-party override that always raises
    if T["error_is_sly_default"]:
        out.append(Obl(pre + "ExperimentParser.error/rejects(raises)", FN + ".error", "post",
                       "a syntax error rejects the text: ExperimentParser.error raises for every token and for end of input (sly's default handler only prints, after which panic-mode recovery resumes parsing)",
                       status=REFUTED, backend="table-compare", detail="ExperimentParser.error resolves to %s, which returns normally" % T["error_owner"],
                       props=PROPS_ALL, model={"resolves_to": T["error_owner"]}, replay=parser_replay))
    else:
        c = ctx.reg.contracts.get(GRAM + ".ExperimentParser.error")
        if c is None:
            out.append(Obl(pre + "ExperimentParser.error/under-contract", FN + ".error", "safety", "error() has a contract", status=UNDECIDED, backend="pyvc", detail="no contract", props=PROPS_ALL))
        else:
            out += c.verify(mutate=mutate, tag=tag)
    # ---- actions
    mod = load_module(GRAM, mutate)
    cls = next((n for n in mod.tree.body if isinstance(n, ast.ClassDef) and n.name == "ExperimentParser"), None)
    if cls is None:
        out.append(Obl(pre + "actions/class", FN, "safety", "class ExperimentParser exists", status=UNDECIDED, backend="extract", detail="missing", props=PROPS_ALL))
        return out
    defs = [n for n in cls.body if isinstance(n, ast.FunctionDef)]
    enums, models = model_info()
    for key, p in sorted(real.items(), key=lambda kv: kv[1]["number"]):
        oid = pre + "action/%s -> %s" % (key[0], " ".join(key[1]) or "ε")
        fn = next((d for d in defs if p["lineno"] is not None and (d.lineno == p["lineno"] or any(dec.lineno == p["lineno"] for dec in d.decorator_list))), None)
        if mutate is not None:
            # mutated source: line numbers may shift; fall back to name + decorator text
            cands = [d for d in defs if d.name == p["_orig"][0] and any(isinstance(dec, ast.Call) and dec.args and isinstance(dec.args[0], ast.Constant)
                                                                        and tuple(dec.args[0].value.split()) == p["_orig"][1] for dec in d.decorator_list)]
            fn = cands[0] if cands else fn
        if key not in G.G_REF:
            continue
        props = ("C02", "C05", "C07", "C13")        # every action builds a node some routing / literal / compile obligation reads
        if key[0] in ("weight", "return_statement", "literal") or "weight" in key[0] or any("weight" in x.lower() for x in key[1]):
            props = props + ("C03", "C10", "C16")        # the declared weights (value and order) reach the AST unchanged
        if any(w in key[0].lower() for w in ("salt", "split", "field", "header")):
            props = props + ("C09", "C12", "C15", "C01", "C14")      # id, salt and splitting fields: the hash key and the signature
        if fn is None:
            out.append(Obl(oid, FN + "." + key[0], "post", "action found in source", status=UNDECIDED, backend="extract", detail="no FunctionDef at line %s" % p["lineno"], props=props))
            continue
        names = set(p["names"])

        def on_attr(base, attr, names=names):
            if isinstance(base, S.Sym) and base.kind == "production":
                if attr not in names:
                    raise S.GenRaise("AttributeError", "production has no attribute %s (has %s)" % (attr, sorted(names)))
                return S.Sym(rn_attr(attr), "attr")
            return NotImplemented
        ex = S.SExec(classdef=cls, enums=enums, models=models, on_attr=on_attr)
        ex.production_names = [rn_attr(x) for x in p["names"]]
        try:
            res = ex.call_function(fn, {"self": S.Obj("parser"), "p": S.Sym("p", "production")})
            got = norm(res)
            want = G.G_REF[key]
            ok = got == want
            out.append(Obl(oid, FN + "." + key[0], "post", "action value == %s" % show(want), status=DISCHARGED if ok else REFUTED,
                           backend="structural", detail="got %s" % show(got), props=props, model={"got": show(got), "want": show(want)}, replay=action_replay))
        except S.GenRaise as e:
            out.append(Obl(oid, FN + "." + key[0], "post", "action value == %s" % show(G.G_REF[key]), status=REFUTED, backend="structural",
                           detail="action raises %s" % e, props=props, model={"raises": str(e)}, replay=action_replay))
        except (S.Unsupported, S.Undetermined) as e:
            out.append(Obl(oid, FN + "." + key[0], "post", "action body inside the supported subset", status=UNDECIDED, backend="structural", detail=str(e), props=props))
    return out


def hash_seed_obligations(T, G, pre, rn):
    """the engine builds its tables at import time; nothing in them may depend on the interpreter's string-hash seed (set /
    dict-of-set iteration order).  Bounded: the tables are dumped again in child interpreters with other PYTHONHASHSEED values;
    grammar-level facts must be identical and each LR table must again equal the independent LALR(1) construction."""
    def canon(t):
        return {"precedence": t["precedence"], "start": t["start"], "tokens": t["tokens"], "sr": t["sr_conflicts"], "rr": t["rr_conflicts"],
                "productions": sorted((p["name"], tuple(p["rhs"]), tuple(p["prec"]), tuple(p["names"])) for p in t["productions"]),
                "probes": sorted((p["number"], str(sorted(p["by_name"].items())), str(p["by_index"])) for p in t.get("accessor_probes", []))}
    base = canon(T)
    base_lex = None
    bad, n = [], 0
    seeds = ("1", "2", "3", "5", "8", "13")
    for seed in seeds:
        try:
            t2, l2 = native.batch([{"cmd": "parser_tables"}, {"cmd": "lexer_tables"}], env_extra={"PYTHONHASHSEED": seed})
        except Exception as e:      # noqa
            return [Obl(pre + "tables/hash-seed-independent", FN, "bounded", "tables can be dumped under other hash seeds", status=ERROR, backend="native-bounded", bounded=True,
                        detail=repr(e)[-600:], props=("C01",) + PROPS_ALL)]
        n += 1
        c2 = canon(t2)
        for k in base:
            if c2[k] != base[k]:
                bad.append({"PYTHONHASHSEED": seed, "differs": k, "here": str(base[k])[:300], "there": str(c2[k])[:300]})
        sub = lr_table_obligations(t2, G, "seed%s:" % seed, rn)
        for o in sub:
            if o.status == REFUTED:
                bad.append({"PYTHONHASHSEED": seed, "differs": o.id, "detail": str(o.detail)[:300]})
        lx = {k: [(r["name"], r["pattern"], r["ignored"], r["has_func"]) for r in st["rules"]] + [st["master"]] for k, st in l2["states"].items()}
        if base_lex is None:
            base_lex = lx
        elif lx != base_lex:
            bad.append({"PYTHONHASHSEED": seed, "differs": "lexer rule tables"})
    o = Obl(pre + "tables/hash-seed-independent", FN, "bounded", "grammar facts, production accessors, LR tables (vs the independent construction) and lexer rule tables are the same in child interpreters with PYTHONHASHSEED in %s" % (seeds,),
            status=DISCHARGED if not bad else REFUTED, backend="native-bounded", bounded=True, detail=str(bad[:2]), props=("C01",) + PROPS_ALL,
            model={"failing_input": bad[0]} if bad else None, meta={"coverage": {"evaluations": n, "bound": "%d hash seeds" % len(seeds)}})
    o.replay = lambda ob: {"reproduced": True, "input": (ob.model or {}).get("failing_input"), "note": "tables dumped from the real classes in child interpreters with different hash seeds"}
    return [o]


def accessor_obligations(T, pre):
    """the accessors grammar actions use on the production object (p.NAME, p.NAMEk, p[i], len(p)), probed on the LIVE
    production objects through the real YaccProduction wrapper with a slice of distinct sentinels: complete for the finite
    table.  Convention (sly documentation): a right-hand-side symbol that occurs once is named by its name, the k-th of
    several occurrences by name + k (from 0); p[i] is the i-th symbol's value."""
    out = []
    probes = {p["number"]: p for p in T.get("accessor_probes", [])}
    if not probes:
        return [Obl(pre + "accessors/probed", FN, "table", "accessor probes available", status=UNDECIDED, backend="native", detail="missing", props=PROPS_ALL)]
    bad = []
    for p in T["productions"]:
        pr = probes.get(p["number"])
        rhs = p["rhs"]
        if pr is None:
            bad.append("production %d not probed" % p["number"])
            continue
        want, seen = {}, {}
        for i, x in enumerate(rhs):
            if rhs.count(x) > 1:
                want["%s%d" % (x, seen.get(x, 0))] = "sentinel-%d" % i
                seen[x] = seen.get(x, 0) + 1
            else:
                want[x] = "sentinel-%d" % i
        if pr["by_name"] != want:
            bad.append("%s -> %s: names give %r, documented %r" % (p["name"], " ".join(rhs), pr["by_name"], want))
        if pr["by_index"] != ["sentinel-%d" % i for i in range(len(rhs))]:
            bad.append("%s -> %s: p[i] gives %r" % (p["name"], " ".join(rhs), pr["by_index"]))
        if pr["len_attr"] != len(rhs) or pr["len_fn"] != len(rhs):
            bad.append("%s -> %s: len %r / %r" % (p["name"], " ".join(rhs), pr["len_attr"], pr["len_fn"]))
        if pr["unknown_name"] != "AttributeError":
            bad.append("%s -> %s: unknown symbol name %s" % (p["name"], " ".join(rhs), pr["unknown_name"]))
    out.append(Obl(pre + "accessors/p.NAME,p[i],len(p)-select-the-documented-symbol", FN, "table",
                   "on every live production: each name selects the value of the documented right-hand-side symbol, p[i] the i-th, p.len == len(p) == |rhs|, an unknown name raises AttributeError",
                   status=DISCHARGED if not bad else REFUTED, backend="table-probe", detail="; ".join(bad)[:1500], props=PROPS_ALL,
                   model={"mismatches": bad[:5]} if bad else None, replay=action_replay))
    return out


def lr_table_obligations(T, G, pre, rn):
    from spec import lalr_ref
    out = []
    lr = T.get("lr")
    if lr is None:
        return [Obl(pre + "lr/tables-dumped", FN, "table", "LR tables available", status=UNDECIDED, backend="native", detail="missing", props=PROPS_ALL)]
    ref = lalr_ref.build()
    prodkey = {p["number"]: (rn(p["name"]), tuple(rn(x) for x in p["rhs"])) for p in T["productions"]}
    refkey = {i: pr for i, pr in enumerate(ref["prods"])}

    def real_act(s, tok):
        a = lr["action"].get(str(s), {}).get(tok)
        if a is None:
            return ("error",)
        if a > 0:
            return ("shift", a)
        if a == 0:
            return ("accept",)
        return ("reduce", prodkey.get(-a))

    def ref_act(s, tok):
        a = ref["action"][s].get(tok)
        if a is None or a == ("error",):
            return ("error",)
        if a[0] == "reduce":
            return ("reduce", refkey[a[1]])
        return a
    terms = sorted(set(ref["terminals"]) | set(T["terminals"]) | {"$end"})
    nts = sorted(set(ref["nonterminals"]) - {lalr_ref.START})
    pair = {0: ref["start"]}
    back = {ref["start"]: 0}
    todo = [(0, ref["start"])]
    mismatch = None
    n_checked = 0
    while todo and mismatch is None:
        sr, sf = todo.pop()
        for tok in terms:
            a, b = real_act(sr, tok), ref_act(sf, tok)
            n_checked += 1
            if a[0] != b[0] or (a[0] == "reduce" and a[1] != b[1]):
                mismatch = "state %d/%d on %s: sly %s, reference %s" % (sr, sf, tok, a, b)
                break
            if a[0] == "shift":
                if pair.get(a[1], b[1]) != b[1] or back.get(b[1], a[1]) != a[1]:
                    mismatch = "state %d/%d on %s: shift targets do not correspond (%s vs %s)" % (sr, sf, tok, a[1], b[1])
                    break
                if a[1] not in pair:
                    pair[a[1]] = b[1]
                    back[b[1]] = a[1]
                    todo.append((a[1], b[1]))
        if mismatch:
            break
        inv_ren = {}
        for p in T["productions"]:
            inv_ren[rn(p["name"])] = p["name"]
        for nt in nts:
            gr = lr["goto"].get(str(sr), {}).get(inv_ren.get(nt, nt))
            gf = ref["goto"][sf].get(nt)
            n_checked += 1
            if (gr is None) != (gf is None):
                mismatch = "state %d/%d goto on %s: sly %s, reference %s" % (sr, sf, nt, gr, gf)
                break
            if gr is not None:
                if pair.get(gr, gf) != gf or back.get(gf, gr) != gr:
                    mismatch = "state %d/%d goto on %s: targets do not correspond" % (sr, sf, nt)
                    break
                if gr not in pair:
                    pair[gr] = gf
                    back[gf] = gr
                    todo.append((gr, gf))
    ok = mismatch is None and not ref["conflicts"]
    out.append(Obl(pre + "lr/tables==independent-LALR(1)-construction-from-G_ref", FN, "table",
                   "the ACTION/GOTO tables sly generated are bisimilar to LALR(1) tables constructed independently from the documented grammar and precedence (so the accepted language and the tree selection are G_ref's, given the LR driver)",
                   status=DISCHARGED if ok else REFUTED, backend="lalr-compare", detail=mismatch or "%d states paired, %d table entries compared" % (len(pair), n_checked),
                   props=PROPS_ALL, model={"mismatch": mismatch, "reference_conflicts": ref["conflicts"][:3]}, replay=parser_replay))
    # defaulted states: the driver takes their action WITHOUT reading the lookahead; only a state whose every lookahead
    # reduces by the same production may be defaulted (never the accept state: that would accept a prefix of the text)
    bad = []
    for s, a in lr["defaulted"].items():
        row = set(lr["action"].get(s, {}).values())
        if not (a < 0 and row == {a}):
            bad.append("state %s defaulted to action %s with row %s" % (s, a, sorted(row)))
    out.append(Obl(pre + "lr/defaulted-states-are-pure-reduce-states", FN, "table",
                   "every state whose action the LR driver takes without a lookahead has that single REDUCE action on all its lookaheads (the accept state is never defaulted)",
                   status=DISCHARGED if not bad else REFUTED, backend="table-compare", detail="; ".join(bad) or "%d defaulted states" % len(lr["defaulted"]), props=PROPS_ALL,
                   model={"bad": bad}, replay=parser_replay))
    return out


def nonterminal_renaming(T, G):
    """map the real grammar's nonterminal names onto G_ref's when the two differ only by a renaming of nonterminals
    (colour refinement on production shapes with terminals fixed).  {} when names already agree or no bijection is found."""
    real_nts = {p["name"] for p in T["productions"]}
    ref_nts = {k[0] for k in G.G_REF}
    if real_nts == ref_nts:
        return {}

    def prods_of(pairs):
        d = {}
        for lhs, rhs in pairs:
            d.setdefault(lhs, []).append(tuple(rhs))
        return d
    rp = prods_of((p["name"], p["rhs"]) for p in T["productions"])
    gp = prods_of(G.G_REF.keys())

    def refine(prods, nts):
        col = {n: 0 for n in nts}
        for _ in range(len(nts) + 2):
            sig = {n: tuple(sorted(tuple(("N", col[x]) if x in nts else ("T", x) for x in rhs) for rhs in prods[n])) for n in nts}
            # also: where the nonterminal is used
            uses = {n: tuple(sorted((col[l], i, len(rhs)) for l in nts for rhs in prods[l] for i, x in enumerate(rhs) if x == n)) for n in nts}
            ids = {}
            new = {}
            for n in sorted(nts, key=lambda n: (sig[n], uses[n])):
                new[n] = ids.setdefault((sig[n], uses[n]), len(ids))
            # make colours canonical across the two grammars: use the signature itself as colour
            col = {n: hash((sig[n], uses[n])) for n in nts}
        return col
    cr, cg = refine(rp, real_nts), refine(gp, ref_nts)
    inv = {}
    for n, c in cg.items():
        inv.setdefault(c, []).append(n)
    ren = {}
    for n, c in cr.items():
        if len(inv.get(c, [])) == 1:
            ren[n] = inv[c][0]
    if len(ren) != len(real_nts) or len(set(ren.values())) != len(ren):
        return {}
    return {k: v for k, v in ren.items() if k != v}


def model_info():
    """enum members and model class names read from the real syntax_tree.py"""
    mod = load_module("pyab_experiment.data_structures.syntax_tree")
    enums, models = {}, set()
    for n in mod.tree.body:
        if isinstance(n, ast.ClassDef):
            bases = [ast.unparse(b) for b in n.bases]
            if "Enum" in bases:
                enums[n.name] = {t.id for st in n.body if isinstance(st, ast.Assign) for t in st.targets if isinstance(t, ast.Name)}
            elif "BaseModel" in bases:
                models.add(n.name)
    return enums, models
