"""Sidecar contracts for src/pyab_experiment/binning/binning.py (the real file is never edited).

Top-level postconditions are taken from the property statements (C03, C10, C12, C15, C16), not from the code.
"""
from __future__ import annotations

import z3

from pyvc.contract import Contract, Shape, Args, lemma
from pyvc.registry import MD5HEX, UTF8, HEXVAL, FIN, uf, acc_fn, acc_axioms
from pyvc.smt import I, R, B, S, Val, NONE, PyList, PyNoneT, fresh

TWO32 = 2 ** 32
ACC = acc_fn(R)   # spec: running totals of a weight array


def POS(s):
    """C12: first 32 bits of the MD5 digest of the UTF-8 encoding of the key, divided by 2^32"""
    return z3.ToReal(HEXVAL(z3.SubString(MD5HEX(UTF8(s)), 0, 8))) / TWO32


class DeterministicProba(Contract):
    target = "pyab_experiment.binning.binning:deterministic_proba"
    props = ("C03", "C12", "C15", "C01", "C10")

    def shapes(self):
        return [Shape("str", lambda p: Args(input_string=z3.String("input_string")))]

    def ensures(self, a, r, p):
        s = a.input_string
        k = z3.Int("k!grid")
        return [("scheme(md5,utf-8,first-8-hex,/2^32)", r == POS(s)),
                ("range[0,1)", z3.And(r >= 0, r < 1)),
                ("grid(2^32)", z3.Exists([k], z3.And(r * TWO32 == z3.ToReal(k), 0 <= k, k < TWO32)))]

    def raises(self, a):
        return {}      # C15: total over every (well-formed) str

    def clause_props(self, name, kind):
        if name.startswith("ensures.scheme"):
            return ("C12", "C01", "C10", "C03", "C09")      # the hash position itself: every property about where a unit lands
        if name.startswith("ensures."):
            return ("C03", "C10", "C12")
        if name.startswith("raises.") or kind in ("safety", "pre-callee"):
            return ("C15", "C12", "C03")
        return ("C01", "C03", "C10", "C12", "C15")       # purity of the position function

    def result(self, a, p):
        return fresh("pos", R)

    def frame(self, a, p, kind, pre):
        return [("no-effects", z3.BoolVal(len(p.effects) == 0)), ("no-havoc", z3.BoolVal(len(p.havoc) == 0))]

    def replay(self, obl):
        from vcore import native
        m = obl.model or {}
        s = native.z3str(m.get("input_string", ""))
        res = native.call("pyab_experiment.binning.binning:deterministic_proba", [s])
        exp = native.spec_pos(s)
        ok = res.get("outcome") == "return" and res.get("value") == exp
        return {"input": {"input_string": s}, "expected": {"outcome": "return", "value": exp,
                "by": "spec.scheme.pos (independent MD5, UTF-8, first 8 hex digits, /2^32)"},
                "observed": res, "reproduced": not ok}


def interval_post(pop, n, c, u, T, r, idx):
    """C03: group idx is selected exactly when u*T lies in [c[idx-1], c[idx])  (c[-1] := 0)"""
    return z3.And(0 <= idx, idx < n, r == pop[idx], z3.Or(idx == 0, c[idx - 1] <= u * T), u * T < c[idx])


class DeterministicChoice(Contract):
    target = "pyab_experiment.binning.binning:deterministic_choice"
    props = ("C03", "C10", "C16", "C01", "C15", "C12")

    def shapes(self):
        out = []
        for idk in ("str", "None"):
            for wk in ("list", "None"):
                for ck in ("list", "None"):
                    def build(p, idk=idk, wk=wk, ck=ck):
                        a = Args()
                        a["input_id"] = z3.String("input_id") if idk == "str" else NONE
                        a["population"] = PyList(z3.Array("population", I, Val), z3.Int("n"), Val, origin="arg:population")
                        a["weights"] = PyList(z3.Array("weights", I, R), z3.Int("nw"), R, origin="arg:weights") if wk == "list" else NONE
                        a["cum_weights"] = PyList(z3.Array("cum_weights", I, R), z3.Int("ncw"), R, origin="arg:cum_weights") if ck == "list" else NONE
                        return a
                    out.append(Shape("id=%s,w=%s,cw=%s" % (idk, wk, ck), build))
        return out

    # the cumulative array the contract talks about, as a function of the ARGUMENTS only
    def cum(self, a):
        if isinstance(a.cum_weights, PyList):
            return a.cum_weights.arr, a.cum_weights.n
        if isinstance(a.weights, PyList):
            return ACC(a.weights.arr), a.weights.n
        return None, None

    def requires(self, a):
        i = z3.Int("i!req")
        n = a.population.n
        pre = [n >= 1]
        if isinstance(a.weights, PyList):
            w = a.weights
            pre += [w.n >= 0, z3.ForAll([i], z3.Implies(z3.And(0 <= i, i < w.n), w.arr[i] >= 0))]
            pre += acc_axioms(w.arr, w.n)
        if isinstance(a.cum_weights, PyList):
            c = a.cum_weights
            pre += [c.n >= 0, z3.Implies(c.n > 0, c.arr[0] >= 0),
                    z3.ForAll([i], z3.Implies(z3.And(0 <= i, i + 1 < c.n), c.arr[i] <= c.arr[i + 1]))]
        return pre

    def raises(self, a):
        if isinstance(a.input_id, PyNoneT):
            # delegation: whatever random.choices does with the same arguments
            return {"Propagated": uf("raises:random.choices", a.population, a.weights, a.cum_weights, sort=B)}
        both = isinstance(a.weights, PyList) and isinstance(a.cum_weights, PyList)
        if both:
            return {"TypeError": z3.BoolVal(True)}
        c, nc = self.cum(a)
        if c is None:
            return {}
        n = a.population.n
        T = c[nc - 1]
        return {"ValueError": z3.Or(nc != n, z3.And(nc == n, z3.Or(T <= 0, z3.Not(FIN(T)))))}

    def ensures(self, a, r, p):
        pop, n = a.population.arr, a.population.n
        idx = z3.Int("idx!post")
        if isinstance(a.input_id, PyNoneT):
            return [("member", z3.Exists([idx], z3.And(0 <= idx, idx < n, r == pop[idx])))]
        u = POS(a.input_id)
        c, nc = self.cum(a)
        if c is None:
            k = z3.ToInt(u * z3.ToReal(n))
            return [("member+floor(u*n)", z3.And(0 <= k, k < n, r == pop[k]))]
        T = c[nc - 1]
        return [("member+interval[c(i-1)<=u*T<c(i)]", z3.Exists([idx], interval_post(pop, n, c, u, T, r, idx)))]

    def result(self, a, p):
        return fresh("choice", Val)

    def clause_props(self, name, kind):
        if name.startswith("ensures.member+interval"):
            return ("C03", "C16", "C10", "C12", "C15")
        if name.startswith("ensures.member+floor"):
            return ("C03", "C16", "C12", "C15")
        if name.startswith("raises.") and self._hashed_shape(name):
            # on the hashed path an exception is only allowed for malformed weights: totality (C15) and the partition (C03) rest on it
            return ("C16", "C15", "C03")
        if name.startswith("ensures.") or name.startswith("raises."):
            return ("C16",)
        if name.startswith("frame.arguments"):
            return ("C16", "C01")
        if name.startswith("frame.deterministic"):
            return ("C01", "C10", "C12", "C15", "C09", "C03", "C16")
        if name.startswith("frame.delegates"):
            return ("C16",)
        return ("C03", "C16")

    @staticmethod
    def _hashed_shape(name):
        return True      # clause names carry no shape; the id=None shapes only have `member` / delegation clauses besides these

    def model_vars(self, a):
        mv = Contract.model_vars(self, a)
        if not isinstance(a.input_id, PyNoneT):
            mv["u"] = POS(a.input_id)
        return mv

    def frame(self, a, p, kind, pre):
        out = [("arguments-unmodified+no-stores", z3.BoolVal(not [e for e in p.effects if e[0] in ("store-attr", "mutate-list", "io")]))]
        if isinstance(a.input_id, PyNoneT):
            calls = [e for e in p.effects if e[0] == "call" and e[1] == "random.choices"]
            ok = len(calls) == 1
            if ok:
                d = calls[0][2]
                ok = (d["population"] is a.population and d["weights"] is a.weights and d["cum_weights"] is a.cum_weights
                      and z3.is_int_value(z3.simplify(d["k"])) and z3.simplify(d["k"]).as_long() == 1)
            out.append(("delegates-to-random.choices(same arguments,k=1)", z3.BoolVal(bool(ok))))
        else:
            out.append(("deterministic(no havoc)", z3.BoolVal(len(p.havoc) == 0)))
        return out

    def replay(self, obl):
        from vcore import native
        return native.replay_choice(obl)


# ------------------------------------------------------------------------------------------------------------
# Lemmas over the CONTRACT of deterministic_choice only (never over its body)

def lemmas(tier="quick"):
    out = []
    pop = z3.Array("population", I, Val)
    n = z3.Int("n")
    c = z3.Array("c", I, R)
    c2 = z3.Array("c2", I, R)
    w = z3.Array("w", I, R)
    u, T, T2 = z3.Real("u"), z3.Real("T"), z3.Real("T2")
    r1, r2 = z3.Const("r1", Val), z3.Const("r2", Val)
    i1, i2, i, j = z3.Int("idx1"), z3.Int("idx2"), z3.Int("i"), z3.Int("j")
    grid = [u >= 0, u < 1]
    pairwise = lambda arr: z3.ForAll([i, j], z3.Implies(z3.And(0 <= i, i <= j, j < n), arr[i] <= arr[j]))
    # L1 zero-weight group is never selected (C03, C16)
    hyp = [n >= 1, T == ACC(w)[n - 1], T > 0] + grid + acc_axioms(w, n) + \
          [z3.ForAll([i], z3.Implies(z3.And(0 <= i, i < n), w[i] >= 0)), interval_post(pop, n, ACC(w), u, T, r1, i1)]
    out.append(lemma("lemma:choice/zero-weight-never-selected", "w[idx]==0 is impossible for the selected idx (incl. u=0)",
                     hyp, w[i1] != 0, ("C03", "C16"), tier, {"n": n, "u": u, "idx": i1, "w": (w, n)}))
    # L1b a selected group has a non-empty interval
    out.append(lemma("lemma:choice/selected-interval-nonempty", "selected idx has c[idx-1] < c[idx]",
                     hyp, z3.Or(i1 == 0, ACC(w)[i1 - 1] < ACC(w)[i1]), ("C03",), tier))
    # L2 uniqueness: the interval index is a function of (u, c) -- labels and branch do not occur (C10, C01, C16)
    hyp = [n >= 1, T == c[n - 1], T > 0, pairwise(c)] + grid + \
          [interval_post(pop, n, c, u, T, r1, i1), interval_post(pop, n, c, u, T, r2, i2)]
    out.append(lemma("lemma:choice/interval-index-unique", "two witnesses of the postcondition coincide: idx=f(u,c) "
                     "[uses Lean lemma adj_sorted_pairwise]", hyp, z3.And(i1 == i2, r1 == r2), ("C10", "C16", "C01", "C03"), tier))
    # L3 weights= and cum_weights= forms are equivalent (C16): same c => same result, immediate from L2 with c = ACC(w)
    hyp = [n >= 1, T == ACC(w)[n - 1], T > 0, pairwise(ACC(w)),
           z3.ForAll([i], z3.Implies(z3.And(0 <= i, i < n), c[i] == ACC(w)[i]))] + grid + \
          [interval_post(pop, n, ACC(w), u, T, r1, i1), interval_post(pop, n, c, u, c[n - 1], r2, i2)]
    out.append(lemma("lemma:choice/weights==cum_weights", "deterministic_choice(id,pop,weights=w) == (…,cum_weights=accumulate(w))",
                     hyp, r1 == r2, ("C16",), tier))
    # L4 no weights == all-ones weights (C16): c[i] = i+1 (Lean lemma acc_ones), T = n
    k = z3.ToInt(u * z3.ToReal(n))
    hyp = [n >= 1, z3.ForAll([i], z3.Implies(z3.And(0 <= i, i < n), c[i] == z3.ToReal(i) + 1)), T == z3.ToReal(n)] + grid + \
          [interval_post(pop, n, c, u, T, r1, i1), r2 == pop[k]]
    out.append(lemma("lemma:choice/unweighted==ones", "no weights == weights [1]*n  [uses Lean lemma acc_ones]",
                     hyp, z3.And(i1 == k, r1 == r2), ("C16",), tier))
    # L4b ... and any equal positive weight q
    q = z3.Real("q")
    hyp = [n >= 1, q > 0, z3.ForAll([i], z3.Implies(z3.And(0 <= i, i < n), c[i] == q * (z3.ToReal(i) + 1))), T == q * z3.ToReal(n)] + grid + \
          [interval_post(pop, n, c, u, T, r1, i1), r2 == pop[k]]
    out.append(lemma("lemma:choice/unweighted==equal-weights", "no weights == weights [q]*n for any q>0 (real arithmetic)",
                     hyp, r1 == r2, ("C16",), tier))
    # L5 monotonicity (C10): if no leading cumulative share decreases, nobody moves to a later group
    hyp = [n >= 1, T == c[n - 1], T2 == c2[n - 1], T > 0, T2 > 0, pairwise(c), pairwise(c2),
           z3.ForAll([i], z3.Implies(z3.And(0 <= i, i < n), c[i] * T2 <= c2[i] * T))] + grid + \
          [interval_post(pop, n, c, u, T, r1, i1), interval_post(pop, n, c2, u, T2, r2, i2)]
    out.append(lemma("lemma:choice/monotone-in-prefix-shares", "c[i]/T <= c'[i]/T' for all i  ==>  idx' <= idx",
                     hyp, i2 <= i1, ("C10",), tier))
    # L6 the position does not depend on weights / labels: POS is a function of the key alone -- congruence
    s1, s2 = z3.String("key1"), z3.String("key2")
    out.append(lemma("lemma:proba/position-function-of-key", "equal keys => equal positions (C15: values printing identically share a bucket)",
                     [s1 == s2], POS(s1) == POS(s2), ("C10", "C15", "C01"), tier))
    return out
