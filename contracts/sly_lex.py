"""Step contract of the vendored scanner loop `pyab_experiment.sly.lex:Lexer.tokenize`.

State of the loop (representation invariant I):
    text : str, index : int >= 0, lineno : int, C : the current lexer class,
    the six table variables that `_set_state` rebinds are exactly the class attributes of C
        (`ignore`, `_master_re`, `_token_funcs`, `_remapping`, `_ignored_tokens`, `literals` -- the interface between
        LexerMeta, which builds the tables, and this loop; which LOCAL holds which attribute is learnt by executing the
        real `_set_state` body, so renaming locals is harmless).

Step_spec(text, index, lineno, C)  (sly's documented scanner; the token stream is the iteration of this step):
    index >= len(text)                      -> STOP
    text[index] in C.ignore                 -> CONTINUE at index+1, nothing emitted
    C._master_re.match(text, index) = m     -> type = m.lastgroup, remapped through C._remapping[type].get(value, type);
         type in C._token_funcs             -> self.index, self.lineno := m.end(), lineno; t' = f(self, tok);
                                               exception propagates; state := (self.index, self.lineno, class after f);
                                               t' falsy -> nothing emitted; t'.type in (new) C._ignored_tokens -> nothing
                                               emitted; else t' emitted
         otherwise                          -> index := m.end(); emitted unless type in C._ignored_tokens
    text[index] in C.literals               -> literal token of one character, index+1
    otherwise                               -> self.index, self.lineno := index, lineno; tok = ERROR token with the REST of
                                               the text; r = self.error(tok); exception propagates; r not None -> r.end :=
                                               self.index, r emitted; state := (self.index, self.lineno, class after error)

Assumed (listed in evidence): CPython's `re.Pattern.match(text, pos)` for 0 <= pos <= len(text) returns None or a match
m with pos <= m.end() <= len(text), m.group() == text[pos:m.end()], m.lastgroup a str, all functions of (pattern, text,
pos); token functions and error() are deterministic functions of (callee, class, text, self.index, self.lineno, token
fields) that may raise, may switch the class (through begin/push_state/pop_state -> _set_state) and leave self.index >= 0;
the generator protocol resumes the body with unchanged locals and sends None (consumers use next()).
"""
from __future__ import annotations

import ast

import z3

from pyvc.contract import load_module
from pyvc.loopstep import (LoopExec, ATTR, DICT_HAS, DICT_GET, find_class_fn, find_driver_loop, nested_def, model_text)
from pyvc.registry import Registry
from pyvc.smt import (OutOfSubset, Path, Raise, NONE, PyNoneT, PyObj, to_val, fresh, I, B, S, Val, STR2VAL, INT2VAL, NONEVAL)
from vcore.obl import Obl, UNDECIDED, ERROR, DISCHARGED, REFUTED, smt_decider

MOD = "pyab_experiment.sly.lex"
TARGET = MOD + ":Lexer.tokenize"
TOKEN_FIELDS = ("type", "value", "lineno", "index", "end")
ROLES = ("ignore", "_master_re", "_token_funcs", "_remapping", "_ignored_tokens", "literals")

# uninterpreted summaries shared by the real body (through the handlers below) and the spec
V3 = [Val, Val, Val]
RE_MATCHES = z3.Function("re_matches", *V3, B)
RE_END = z3.Function("re_end", *V3, I)
RE_LASTGROUP = z3.Function("re_lastgroup", *V3, S)
NARGS = 10
VA = [Val] * NARGS
TF_RAISES = z3.Function("tf_raises", *VA, B)
TF_NONE = z3.Function("tf_none", *VA, B)
TF_INDEX = z3.Function("tf_index", *VA, I)
TF_LINENO = z3.Function("tf_lineno", *VA, I)
TF_CLS = z3.Function("tf_cls", *VA, Val)
TF_FIELD = {f: z3.Function("tf_tok_" + f, *VA, Val) for f in TOKEN_FIELDS}
ERROR_OF = z3.Function("error_method_of", Val, Val)


def call_args(callee, C, text, sidx, slineno, tokattrs):
    return [callee, C, STR2VAL(text), to_val(sidx), to_val(slineno)] + [to_val(tokattrs[f]) if f in tokattrs else NONEVAL for f in TOKEN_FIELDS]


class LexRegistry(Registry):
    """externals as seen from the scanner loop"""

    def __init__(self, table_vars):
        Registry.__init__(self)
        self.table_vars = table_vars          # local name -> class attribute name
        self.val_methods = {"match": self.re_match, "get": self.dict_get_method}
        self.ext[MOD + ".Token"] = self.token_ctor
        self.ext["<opaque-call>"] = self.token_function_call
        self.methods[(MOD + ".Lexer", "error")] = self.error_call
        self.methods[("re.Match", "end")] = lambda ex, p, pos, kw, node: [(p, p.heap[pos[0].oid]["attrs"]["_end"])]
        self.methods[("re.Match", "group")] = self.match_group
        self.sorts[(MOD + ".Lexer", "index")] = I
        self.sorts[(MOD + ".Lexer", "lineno")] = I

    def token_ctor(self, ex, p, pos, kw, node):
        if pos or kw:
            raise OutOfSubset("Token() with arguments")
        return [(p, p.new_obj(MOD + ".Token"))]

    def re_match(self, ex, p, pos, kw, node):
        if len(pos) != 3 or kw:
            raise OutOfSubset("pattern.match with %d arguments" % (len(pos) - 1))
        pat, text, idx = pos
        if not (z3.is_expr(text) and text.sort() == S and z3.is_expr(idx) and idx.sort() == I):
            raise OutOfSubset("pattern.match(text, pos) on unexpected sorts")
        p.obls.append(("pre-callee.re.match.pos-in-range@%d" % node.lineno, z3.And(idx >= 0, idx <= z3.Length(text)), node.lineno, list(p.pc), list(p.facts)))
        a = [to_val(pat), STR2VAL(text), INT2VAL(idx)]
        pt, pf = ex.split(p, RE_MATCHES(*a))
        out = []
        if pf is not None:
            out.append((pf, NONE))
        if pt is not None:
            e = RE_END(*a)
            pt.facts.append(z3.And(idx <= e, e <= z3.Length(text)))
            m = pt.new_obj("re.Match", attrs={"lastgroup": RE_LASTGROUP(*a), "_end": e, "_text": text, "_pos": idx})
            out.append((pt, m))
        return out

    def match_group(self, ex, p, pos, kw, node):
        if len(pos) != 1 or kw:
            raise OutOfSubset("match.group with arguments")
        at = p.heap[pos[0].oid]["attrs"]
        return [(p, z3.SubString(at["_text"], at["_pos"], at["_end"] - at["_pos"]))]

    def dict_get_method(self, ex, p, pos, kw, node):
        if len(pos) != 3 or kw:
            raise OutOfSubset("mapping.get with %d arguments" % (len(pos) - 1))
        d, k, default = pos
        kv = to_val(k)
        return [(p, z3.If(DICT_HAS(d, kv), DICT_GET(d, kv), to_val(default)))]

    # -- the user's token functions and error(): one shared summary
    def _summary(self, ex, p, callee, selfobj, tok, node):
        if not (isinstance(selfobj, PyObj) and isinstance(tok, PyObj)):
            raise OutOfSubset("token function called with unexpected arguments (line %d)" % node.lineno)
        C = p.ghost["lexer_class"]
        text = p.ghost["lexer_text"]
        sidx = ex.load_attr(p, selfobj, "index")         # a fresh (arbitrary) value if the body never synchronised it
        sln = ex.load_attr(p, selfobj, "lineno")
        a = call_args(callee, C, text, sidx, sln, p.heap[tok.oid]["attrs"])
        p.effects.append(("user-call", a, node.lineno))
        out = []
        pr, pn = ex.split(p, TF_RAISES(*a))
        if pr is not None:
            out.append((pr, Raise("UserFunctionRaised", "token function / error() raised (line %d)" % node.lineno)))
        if pn is not None:
            C2 = TF_CLS(*a)
            pn.ghost["lexer_class"] = C2
            for var, attr in self.table_vars.items():      # begin() -> _set_state(cls) rebinds the closure variables
                pn.env[var] = ATTR(attr)(C2)
            at = pn.heap[selfobj.oid]["attrs"]
            at["index"], at["lineno"] = TF_INDEX(*a), TF_LINENO(*a)
            pn.facts.append(TF_INDEX(*a) >= 0)
            p0, p1 = ex.split(pn, TF_NONE(*a))
            if p0 is not None:
                out.append((p0, NONE))
            if p1 is not None:
                t2 = p1.new_obj(MOD + ".Token", attrs={f: TF_FIELD[f](*a) for f in TOKEN_FIELDS})
                out.append((p1, t2))
        return out

    def token_function_call(self, ex, p, pos, kw, node):
        if len(pos) != 3 or kw:
            raise OutOfSubset("opaque call with %d arguments (line %d)" % (len(pos) - 1, node.lineno))
        return self._summary(ex, p, pos[0], pos[1], pos[2], node)

    def error_call(self, ex, p, pos, kw, node):
        if len(pos) != 2 or kw:
            raise OutOfSubset("self.error with %d arguments" % (len(pos) - 1))
        return self._summary(ex, p, ERROR_OF(p.ghost["lexer_class"]), pos[0], pos[1], node)


# ---------------------------------------------------------------------------------------------------------------------
# the specification

class Tok:
    def __init__(self, type_, value, lineno, index, end):
        self.f = {"type": type_, "value": value, "lineno": lineno, "index": index, "end": end}


class Case:
    def __init__(self, name, cond, kind, state=None, emit=None, calls=()):
        self.name, self.cond, self.kind, self.state, self.emit, self.calls = name, cond, kind, state, emit, list(calls)


def step_spec(text, index, lineno, C):
    """the cases of Step_spec: mutually exclusive, exhaustive under index >= 0"""
    T = {r: ATTR(r)(C) for r in ROLES}
    n = z3.Length(text)
    inside = index < n
    ch = z3.SubString(text, index, 1)
    chv = STR2VAL(ch)
    ign = DICT_HAS(T["ignore"], chv)
    ma = [T["_master_re"], STR2VAL(text), INT2VAL(index)]
    matched = RE_MATCHES(*ma)
    e = RE_END(*ma)
    v = z3.SubString(text, index, e - index)
    vv = STR2VAL(v)
    ty0 = STR2VAL(RE_LASTGROUP(*ma))
    inner = DICT_GET(T["_remapping"], ty0)
    ty = z3.If(DICT_HAS(T["_remapping"], ty0), z3.If(DICT_HAS(inner, vv), DICT_GET(inner, vv), ty0), ty0)
    hasf = DICT_HAS(T["_token_funcs"], ty)
    A = [DICT_GET(T["_token_funcs"], ty), C, STR2VAL(text), INT2VAL(e), INT2VAL(lineno), ty, vv, INT2VAL(lineno), INT2VAL(index), INT2VAL(e)]
    C2 = TF_CLS(*A)
    st2 = (TF_INDEX(*A), TF_LINENO(*A), C2)
    t2 = Tok(*[TF_FIELD[f](*A) for f in TOKEN_FIELDS])
    ign2 = DICT_HAS(ATTR("_ignored_tokens")(C2), t2.f["type"])
    M = z3.And(inside, z3.Not(ign), matched)
    N = z3.And(inside, z3.Not(ign), z3.Not(matched))
    lit = DICT_HAS(T["literals"], chv)
    rest = z3.SubString(text, index, n - index)
    E = [ERROR_OF(C), C, STR2VAL(text), INT2VAL(index), INT2VAL(lineno), STR2VAL(z3.StringVal("ERROR")), STR2VAL(rest), INT2VAL(lineno), INT2VAL(index), NONEVAL]
    C3 = TF_CLS(*E)
    st3 = (TF_INDEX(*E), TF_LINENO(*E), C3)
    t3 = Tok(TF_FIELD["type"](*E), TF_FIELD["value"](*E), TF_FIELD["lineno"](*E), TF_FIELD["index"](*E), INT2VAL(TF_INDEX(*E)))
    plain = Tok(ty, vv, INT2VAL(lineno), INT2VAL(index), INT2VAL(e))
    ignt = DICT_HAS(T["_ignored_tokens"], ty)
    return [
        Case("end-of-text", z3.Not(inside), "stop"),
        Case("ignored-character", z3.And(inside, ign), "continue", (index + 1, lineno, C)),
        Case("match/ignored-token", z3.And(M, z3.Not(hasf), ignt), "continue", (e, lineno, C)),
        Case("match/token", z3.And(M, z3.Not(hasf), z3.Not(ignt)), "continue", (e, lineno, C), plain),
        Case("match/function-raises", z3.And(M, hasf, TF_RAISES(*A)), "raise", calls=[A]),
        Case("match/function-drops", z3.And(M, hasf, z3.Not(TF_RAISES(*A)), TF_NONE(*A)), "continue", st2, calls=[A]),
        Case("match/function-token-ignored", z3.And(M, hasf, z3.Not(TF_RAISES(*A)), z3.Not(TF_NONE(*A)), ign2), "continue", st2, calls=[A]),
        Case("match/function-token", z3.And(M, hasf, z3.Not(TF_RAISES(*A)), z3.Not(TF_NONE(*A)), z3.Not(ign2)), "continue", st2, t2, calls=[A]),
        Case("literal", z3.And(N, lit), "continue", (index + 1, lineno, C), Tok(chv, chv, INT2VAL(lineno), INT2VAL(index), INT2VAL(index + 1))),
        Case("error/raises", z3.And(N, z3.Not(lit), TF_RAISES(*E)), "raise", calls=[E]),
        Case("error/returns-none", z3.And(N, z3.Not(lit), z3.Not(TF_RAISES(*E)), TF_NONE(*E)), "continue", st3, calls=[E]),
        Case("error/returns-token", z3.And(N, z3.Not(lit), z3.Not(TF_RAISES(*E)), z3.Not(TF_NONE(*E))), "continue", st3, t3, calls=[E]),
    ]


# ---------------------------------------------------------------------------------------------------------------------
# extraction + verification conditions

class Extracted:
    pass


def extract(mutate=None):
    mod = load_module(MOD, mutate)
    fn = find_class_fn(mod.tree, "Lexer", "tokenize")
    if fn is None:
        raise OutOfSubset("Lexer.tokenize not found")
    x = Extracted()
    x.mod, x.fn = mod, fn
    x.loop, x.enclosing_try = find_driver_loop(fn)
    x.set_state = nested_def(fn, "_set_state")
    if x.set_state is None or len(x.set_state.args.args) != 1:
        raise OutOfSubset("nested _set_state(cls) not found")
    params = [a.arg for a in fn.args.args]
    if params[:2] != ["self", "text"] or "index" not in params or "lineno" not in params:
        raise OutOfSubset("tokenize(self, text, lineno, index) signature changed: %r" % params)
    x.dropped = ["the generator protocol around `yield` (A-gen)",
                 "the try/finally around the loop (writes text/index/lineno back to the instance on exit)" if x.enclosing_try is not None else "",
                 "the closures _mark/_accept/_reject (only callable from user token functions; covered by the token-function summary)"]
    x.dropped = [d for d in x.dropped if d]
    return x


def table_vars(x, tier):
    """execute the REAL `_set_state` body on a symbolic class: local name -> class attribute it is bound to"""
    reg = Registry()
    reg.val_methods = {}
    p = Path()
    C = z3.Const("cls!sym", Val)
    p.env[x.set_state.args.args[0].arg] = C
    outs = LoopExec(x.mod, reg, tier).run_block(list(x.set_state.body), p)
    if len(outs) != 1 or outs[0][1] != "fallthrough":
        raise OutOfSubset("_set_state is not straight-line code")
    env = outs[0][0].env
    m = {}
    for name, v in env.items():
        if z3.is_expr(v) and v.sort() == Val and z3.is_app(v) and v.decl().name().startswith("attr:") and v.num_args() == 1 and v.arg(0).eq(C):
            m[name] = v.decl().name()[5:]
    nl = [n for st in x.set_state.body if isinstance(st, ast.Nonlocal) for n in st.names]
    return m, nl


def obligations(tier="quick", mutate=None, tag="", props=()):
    base = "sly.lex.Lexer.tokenize" + tag
    mk = lambda oid, kind, text, **kw: Obl("%s/%s" % (base, oid), TARGET, kind, text, props=props, **kw)   # noqa: E731
    try:
        x = extract(mutate)
        tv, nonlocals = table_vars(x, tier)
    except OutOfSubset as e:
        return [mk("in-subset", "safety", "scanner loop is inside the supported subset", status=UNDECIDED, backend="pyvc", detail="out of subset: %s" % e)]
    out = []
    # (1) the table variables are exactly the six documented class attributes, all rebound together by _set_state
    ok = sorted(tv.values()) == sorted(ROLES) and set(tv) == set(nonlocals)
    out.append(mk("invariant/_set_state-binds-the-six-tables", "frame", "_set_state(cls) rebinds every table variable to the class attribute of cls: %r" % tv,
                  status=DISCHARGED if ok else REFUTED, backend="pyvc", detail="locals->attributes %r; nonlocal %r" % (tv, nonlocals),
                  model=None if ok else {"witness": "table variables %r vs roles %r" % (tv, ROLES)}))
    # (2) nobody else writes a table variable; index/lineno are written only by the loop body and _reject
    writers = {}
    for node in ast.walk(x.fn):
        if isinstance(node, ast.Name) and isinstance(node.ctx, ast.Store) and node.id in tv:
            writers.setdefault(node.id, []).append(node.lineno)
    lo, hi = x.set_state.lineno, x.set_state.end_lineno
    loop_lo, loop_hi = x.loop.lineno, x.loop.end_lineno
    bad = {k: [ln for ln in v if not (lo <= ln <= hi) and ln >= loop_lo] for k, v in writers.items()}
    bad = {k: v for k, v in bad.items() if v}
    out.append(mk("invariant/tables-written-only-by-_set_state", "frame", "inside the loop no statement assigns a table variable",
                  status=DISCHARGED if not bad else REFUTED, backend="extract", detail=str(bad), model=None if not bad else {"witness": str(bad)}))
    # (3) initial state: _set_state(type(self)) before the loop
    init = [st for st in x.fn.body if isinstance(st, ast.Expr) and ast.unparse(st.value) == "%s(type(self))" % x.set_state.name and st.lineno < loop_lo]
    out.append(mk("invariant/initial-class-is-type(self)", "frame", "the loop is entered with the tables of type(self)",
                  status=DISCHARGED if init else REFUTED, backend="extract", detail="", model=None if init else {"witness": "no `_set_state(type(self))` before the loop"}))
    # (3b) the real prologue, executed symbolically, hands the loop exactly the caller's text / index / lineno and the tables of type(self)
    out.extend(prologue_obligations(x, tv, tier, mk))
    # (4) step refinement
    reg = LexRegistry(tv)
    p = Path()
    text, index, lineno, C = z3.String("text"), z3.Int("index"), z3.Int("lineno"), z3.Const("C", Val)
    p.env.update({"text": text, "index": index, "lineno": lineno})
    for var, attr in tv.items():
        p.env[var] = ATTR(attr)(C)
    selfobj = p.new_obj(MOD + ".Lexer", origin="arg:self")
    p.env["self"] = selfobj
    p.ghost["lexer_class"], p.ghost["lexer_text"] = C, text
    p.pc.append(index >= 0)
    try:
        outs = LoopExec(x.mod, reg, tier).run_block(list(x.loop.body), p)
    except OutOfSubset as e:
        out.append(mk("in-subset", "safety", "scanner loop body is inside the supported subset", status=UNDECIDED, backend="pyvc", detail="out of subset: %s" % e))
        return out
    cases = step_spec(text, index, lineno, C)
    pre = [index >= 0]
    mv = {"text": text, "index": index, "lineno": lineno}
    conds = [c.cond for c in cases]
    out.append(mk("spec/cases-exhaustive", "lemma", "the cases of Step_spec cover every state", decide=smt_decider(pre, z3.Or(*conds), tier, model_vars=mv)))
    out.append(mk("spec/cases-exclusive", "lemma", "the cases of Step_spec are mutually exclusive",
                  decide=smt_decider(pre, z3.And(*[z3.Not(z3.And(a, b)) for i, a in enumerate(conds) for b in conds[i + 1:]]), tier, model_vars=mv)))
    covered, allfacts = [], []
    for k, (pp, kind, v) in enumerate(outs):
        hyps = pp.pc + pp.facts
        for (name, goal, ln, pc_at, facts_at) in pp.obls:
            out.append(mk("step#p%d/%s" % (k, name), "safety", name, decide=smt_decider(pc_at + facts_at, goal, tier, model_vars=mv)))
        rk = {"fallthrough": "continue", "continue": "continue", "return": "stop", "raise": "raise", "break": "break"}.get(kind, kind)
        if kind == "return" and not isinstance(v, PyNoneT):
            rk = "return-value"
        if kind == "raise" and v.exc != "UserFunctionRaised":
            rk = "raise:" + v.exc
        emits = [e for e in pp.effects if e[0] == "yield"]
        calls = [e[1] for e in pp.effects if e[0] == "user-call"]
        st = (pp.env.get("index"), pp.env.get("lineno"), pp.ghost["lexer_class"])
        goals = []
        for c in cases:
            goals.append(z3.Implies(c.cond, _same(rk, st, emits, calls, c)))
        covered.append(z3.And(*pp.pc))
        allfacts.extend(pp.facts)
        desc = "%s, %d token(s) emitted, %d user call(s)" % (rk, len(emits), len(calls))
        out.append(mk("step#p%d/refines-Step_spec" % k, "post", "path %d of the real loop body (%s) equals Step_spec on every state that takes it" % (k, desc),
                      decide=smt_decider(hyps, z3.And(*goals), tier, model_vars=mv), meta={"path": k, "outcome": rk}))
        if rk == "continue":
            out.append(mk("step#p%d/invariant-preserved(index>=0)" % k, "post", "index stays non-negative", decide=smt_decider(hyps, st[0] >= 0, tier, model_vars=mv)))
    # (5) every spec case is reachable through the real body (no vacuity: the paths partition the state space)
    out.append(mk("step/paths-cover-every-state", "lemma", "the feasible paths of the real body cover every state satisfying the invariant",
                  decide=smt_decider(pre + allfacts, z3.Or(*covered) if covered else z3.BoolVal(False), tier, model_vars=mv)))
    for o in out:
        o.meta.setdefault("dropped", x.dropped)
    return out


def prologue_obligations(x, tv, tier, mk):
    from contracts.sly_yacc import ParseExec, ParseRegistry

    class PrologueExec(ParseExec):
        def st_FunctionDef(self, st, rest, p):
            p.env[st.name] = ("closure", st)
            self.block(rest, p)

        def call(self, f, pos, kw, p, node):
            if isinstance(f, tuple) and f[0] == "closure":
                fn = f[1]
                names = [a.arg for a in fn.args.args]
                if kw or len(pos) != len(names):
                    raise OutOfSubset("closure call arity")
                for nme, v in zip(names, pos):
                    p.env[nme] = v
                sub = type(self)(self.mod, self.reg, self.tier)
                outs = sub.run_block(list(fn.body), p)       # nonlocal: the closure works on the enclosing function's variables
                res = []
                for (p2, kind, v) in outs:
                    if kind in ("fallthrough", "return"):
                        res.append((p2, NONE if kind == "fallthrough" else v))
                    elif kind == "raise":
                        res.append((p2, v))
                    else:
                        raise OutOfSubset("loop control inside a closure")
                return res
            return ParseExec.call(self, f, pos, kw, p, node)

    stop = x.enclosing_try.lineno if x.enclosing_try is not None else x.loop.lineno
    pro = [st for st in x.fn.body if st.lineno < stop]
    reg = ParseRegistry()
    TYPEOF = z3.Function("typeof", Val, Val)
    reg.ext["builtins.type"] = lambda ex, p, pos, kw, node: [(p, TYPEOF(to_val(pos[0])))]
    p = Path()
    selfobj = p.new_obj(MOD + ".Lexer", origin="arg:self")
    text0, index0, lineno0 = z3.String("text@entry"), z3.Int("index@entry"), z3.Int("lineno@entry")
    p.env.update({"self": selfobj, "text": text0, "index": index0, "lineno": lineno0})
    try:
        outs = PrologueExec(x.mod, reg, tier).run_block(pro, p)
    except OutOfSubset as e:
        return [mk("prologue/in-subset", "safety", "the scanner prologue is inside the supported subset", status=UNDECIDED, backend="pyvc", detail="out of subset: %s" % e)]
    out = []
    C0 = TYPEOF(to_val(selfobj))
    for k, (pp, kind, v) in enumerate(outs):
        if kind != "fallthrough":
            out.append(mk("prologue#p%d/reaches-the-loop" % k, "post", "the prologue reaches the loop on every path", status=REFUTED, backend="pyvc",
                          detail="%s %s" % (kind, v), model={"witness": ""}))
            continue
        env = pp.env
        conj = []
        try:
            conj = [to_val(env["text"]) == to_val(text0), to_val(env["index"]) == to_val(index0), to_val(env["lineno"]) == to_val(lineno0)]
            for var, attr in tv.items():
                conj.append(to_val(env[var]) == ATTR(attr)(C0))
            st_text = pp.heap[selfobj.oid]["attrs"].get("text")
            conj.append(to_val(st_text) == to_val(text0) if st_text is not None else z3.BoolVal(False))
        except (KeyError, OutOfSubset) as e:
            out.append(mk("prologue#p%d/establishes-initial-state" % k, "post", "loop variables bound", status=REFUTED, backend="pyvc", detail=repr(e), model={"witness": ""}))
            continue
        out.append(mk("prologue#p%d/establishes-initial-state" % k, "post",
                      "the loop starts on exactly the text, index and lineno the caller passed, with the tables of type(self); self.text is that text",
                      decide=smt_decider(pp.pc + pp.facts, z3.And(*conj), tier, model_vars={"text": text0, "index": index0, "lineno": lineno0})))
    return out


def _same(rk, st, emits, calls, c):
    """equality of one real path outcome and one spec case"""
    if rk != c.kind:
        return z3.BoolVal(False)
    conj = []
    if len(calls) != len(c.calls):
        return z3.BoolVal(False)
    for a, b in zip(calls, c.calls):
        conj.extend(x == y for x, y in zip(a, b))
    if c.kind == "continue":
        if st[0] is None or st[1] is None:
            return z3.BoolVal(False)
        conj += [st[0] == c.state[0], st[1] == c.state[1], st[2] == c.state[2]]
    want = [c.emit] if c.emit is not None else []
    if len(emits) != len(want):
        return z3.BoolVal(False)
    for e, w in zip(emits, want):
        snap = e[1]
        if snap[0] != "obj" or not snap[1].endswith(".Token"):
            return z3.BoolVal(False)
        for f in TOKEN_FIELDS:
            if f not in snap[2]:
                return z3.BoolVal(False)
            conj.append(to_val(snap[2][f]) == w.f[f])
    return z3.And(*conj) if conj else z3.BoolVal(True)


# ---------------------------------------------------------------------------------------------------------------------
# begin / push_state / pop_state: the state-switch methods the token functions call

def state_method_obligations(tier="quick", mutate=None, tag="", props=()):
    """Contracts of Lexer.begin / push_state / pop_state, proved on the real bodies:
         begin(cls)      : type(self) becomes cls and the running tokenize() is told (its _set_state closure, stored on the
                           instance by tokenize, is called exactly once with cls); AssertionError iff cls is no lexer class
         push_state(cls) : the previous class is appended to the state stack (created when absent), then begin(cls)
         pop_state()     : begin(the class popped from the state stack)
       Together with `_set_state-binds-the-six-tables` this is what makes `C' = the class the token function switched to`
       in the loop summary."""
    from contracts.sly_yacc import ParseExec, ParseRegistry, is_list, new_list, AV, TRUTHY
    base = "sly.lex.Lexer" + tag
    mod = load_module(MOD, mutate)
    out = []
    ISINST = z3.Function("isinstance", Val, Val, B)

    class Reg(ParseRegistry):
        def __init__(self):
            ParseRegistry.__init__(self)
            self.ext["builtins.type"] = lambda ex, p, pos, kw, node: [(p, ex.load_attr(p, pos[0], "__class__"))]
            self.ext["builtins.isinstance"] = lambda ex, p, pos, kw, node: [(p, ISINST(to_val(pos[0]), to_val(pos[1])))]
            self.ext["<opaque-call>"] = self.closure_call

        def closure_call(self, ex, p, pos, kw, node):
            p.effects.append(("closure-call", to_val(pos[0]), [to_val(a) for a in pos[1:]], node.lineno))
            return [(p, NONE)]

    def mk(meth, oid, kind, text, **kw):
        return Obl("%s.%s/%s" % (base, meth, oid), MOD + ":Lexer." + meth, kind, text, props=props, **kw)

    for meth in ("begin", "push_state", "pop_state"):
        fn = find_class_fn(mod.tree, "Lexer", meth)
        if fn is None:
            out.append(mk(meth, "exists", "safety", "method exists", status=UNDECIDED, backend="extract", detail="not found"))
            continue
        for shape in (("stack=None", "stack=list") if meth == "push_state" else ("stack=list",)):
            reg = Reg()
            p = Path()
            C0, C1, SETST = z3.Const("C_before", Val), z3.Const("cls_arg", Val), z3.Const("set_state_closure", Val)
            arr0, n0 = z3.Const("stack0", AV), z3.Int("n0")
            me = p.new_obj(MOD + ".Lexer", origin="arg:self", attrs={"__class__": C0, "__set_state": SETST})
            if shape == "stack=list":
                st = new_list(p, arr0, n0)
                p.pc.append(n0 >= 0)
                p.heap[me.oid]["attrs"]["__state_stack"] = st
            else:
                p.heap[me.oid]["attrs"]["__state_stack"] = NONE
            p.env["self"] = me
            if meth != "pop_state":
                p.env[fn.args.args[1].arg] = C1
            try:
                outs = ParseExec(mod, reg, tier).run(fn, p)
            except OutOfSubset as e:
                out.append(mk(meth, "in-subset[%s]" % shape, "safety", "method body inside the supported subset", status=UNDECIDED, backend="pyvc", detail="out of subset: %s" % e))
                continue
            lexermeta = z3.Const("global:%s.LexerMeta" % MOD, Val)
            for k, (pp, kind, v) in enumerate(outs):
                hyps = pp.pc + pp.facts
                at = pp.heap[me.oid]["attrs"]
                calls = [e for e in pp.effects if e[0] == "closure-call"]
                stk = at.get("__state_stack")
                if meth == "pop_state":
                    newcls = z3.Select(arr0, n0 - 1)
                else:
                    newcls = C1
                oid = "%s#p%d" % (shape, k)
                if kind == "raise":
                    if v.exc == "AssertionError":
                        goal = z3.Not(ISINST(newcls, lexermeta))
                    elif v.exc == "IndexError" and meth == "pop_state":
                        goal = n0 == 0
                    else:
                        goal = z3.BoolVal(False)
                    out.append(mk(meth, "raises.only-when[%s]:%s" % (oid, v.exc), "raises", "%s only under its documented condition" % v.exc, decide=smt_decider(hyps, goal, tier)))
                    continue
                conj = [to_val(at.get("__class__", NONE)) == newcls, ISINST(newcls, lexermeta)]
                conj.append(z3.If(TRUTHY(SETST), z3.BoolVal(len(calls) == 1 and len(calls[0][2]) == 1) if calls else z3.BoolVal(False), z3.BoolVal(not calls)))
                if calls and len(calls[0][2]) == 1:
                    conj += [calls[0][1] == SETST, calls[0][2][0] == newcls]
                if not is_list(pp, stk):
                    conj.append(z3.BoolVal(False))
                else:
                    sa = pp.heap[stk.oid]["attrs"]
                    i = z3.Int("i!st")
                    if meth == "push_state":
                        nb = n0 if shape == "stack=list" else z3.IntVal(0)
                        conj += [sa["n"] == nb + 1, z3.Select(sa["arr"], nb) == C0]
                        if shape == "stack=list":
                            conj.append(z3.ForAll([i], z3.Implies(z3.And(0 <= i, i < n0), z3.Select(sa["arr"], i) == z3.Select(arr0, i))))
                    elif meth == "pop_state":
                        conj += [sa["n"] == n0 - 1, z3.ForAll([i], z3.Implies(z3.And(0 <= i, i < n0 - 1), z3.Select(sa["arr"], i) == z3.Select(arr0, i)))]
                    else:
                        conj += [sa["n"] == n0, z3.BoolVal(not [e for e in pp.effects if e[0] == "mutate-list"])]     # begin() leaves the stack alone
                stores = [e for e in pp.effects if e[0] == "store-attr" and e[1] == me.oid and e[2] not in ("__class__", "__state_stack")]
                conj.append(z3.BoolVal(not stores))
                out.append(mk(meth, "ensures.switches-class-and-notifies-tokenize[%s]" % oid, "post",
                              "%s: class := %s, the tokenize closure is called once with it, the state stack is updated as documented, nothing else is written" % (meth, "popped class" if meth == "pop_state" else "cls"),
                              decide=smt_decider(hyps, z3.And(*conj), tier)))
    # tokenize stores its _set_state closure where begin() looks for it
    try:
        x = extract(mutate)
        stores = [ast.unparse(st) for st in x.fn.body if isinstance(st, ast.Assign) and st.lineno < x.loop.lineno]
        ok = "self.__set_state = %s" % x.set_state.name in stores
        beg = find_class_fn(mod.tree, "Lexer", "begin")
        ok2 = beg is not None and "self.__set_state(" in ast.unparse(beg)
        out.append(Obl(base + ".tokenize/publishes-_set_state-for-begin", TARGET, "frame", "tokenize stores its _set_state closure in the attribute begin() calls",
                       status=DISCHARGED if ok and ok2 else REFUTED, backend="extract", detail=str(stores)[:300], props=props,
                       model=None if ok and ok2 else {"witness": "self.__set_state wiring"}))
    except OutOfSubset:
        pass
    return out
