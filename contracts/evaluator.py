"""Sidecar contracts for experiment_evaluator.py and utils/wraper_functions.py (C11, C01, C06, C14, C17 frames).

Ghost state (C11): `accepted` -- the last source text the evaluator accepted (None for a fresh instance).
Representation invariant  I(self, accepted):
    accepted is None  and  _checksum == ""  and run_experiment is the class default
 or _checksum == MD5HEX(utf8(accepted))  and  run_experiment == COMPILED(accepted)
where COMPILED(src) = namespace(EXEC(COMPILE(GEN(PARSE(src), expose=False))))[ID(PARSE(src))] is a term over the
(assumed, deterministic) contracts of the pipeline stages.  "behaves like a fresh evaluator built from the last
accepted text" is exactly  run_experiment == COMPILED(accepted).
"""
from __future__ import annotations

import z3

from pyvc.contract import Contract, Shape, Args
from pyvc.registry import MD5HEX, UTF8, uf, mayraise, obl
from pyvc.smt import (I, R, B, S, Val, NONE, NONEVAL, PyObj, PyDict, PyNoneT, KwSplat, QName, Raise, OutOfSubset,
                      fresh, to_val, STR2VAL, BOOL2VAL)

EV = "pyab_experiment.experiment_evaluator.ExperimentEvaluator"
PE = "pyab_experiment.experiment_evaluator.ParseError"
GENCLS = "pyab_experiment.codegen.python.python_generator.PythonCodeGen"
LEXCLS = "pyab_experiment.language.lexer.ExperimentLexer"
PARCLS = "pyab_experiment.language.grammar.ExperimentParser"
CLASS_DEFAULT_RUN = z3.Const("ExperimentEvaluator.run_experiment(class default)", Val)
EMPTYDICT = z3.Const("emptydict", Val)


def PARSE(text):
    return uf("YACC_PARSE", uf("LEX_TOKENIZE", text))


def GEN(ast, expose):
    return uf("GEN", ast, expose)


def COMPILED(src):
    ast = PARSE(src)
    code = uf("COMPILE", z3.Function("val2str", Val, S)(GEN(ast, z3.BoolVal(False))))
    ns = uf("EXEC", code, EMPTYDICT)
    key = z3.Function("attr:id", Val, Val)(ast)
    return z3.Function("dict_get", Val, Val, Val)(ns, key)


def checksum_attr():
    """name of the evaluator's change-detection attribute: the class-level attribute initialised to "" (renaming it is
    harmless, so the contract does not hard-code `_checksum`)"""
    import ast as _ast
    from pyvc.contract import load_module
    try:
        mod = load_module("pyab_experiment.experiment_evaluator")
    except OSError:
        return "_checksum"
    for n in mod.tree.body:
        if isinstance(n, _ast.ClassDef) and n.name == "ExperimentEvaluator":
            for st in n.body:
                tgt, val = None, None
                if isinstance(st, _ast.AnnAssign) and isinstance(st.target, _ast.Name):
                    tgt, val = st.target.id, st.value
                elif isinstance(st, _ast.Assign) and len(st.targets) == 1 and isinstance(st.targets[0], _ast.Name):
                    tgt, val = st.targets[0].id, st.value
                if tgt and isinstance(val, _ast.Constant) and val.value == "":
                    return tgt
    return "_checksum"


CK = "_checksum"


def setup(reg):
    global CK
    CK = checksum_attr()
    """assumed contracts of the pipeline stages (summaries; the stages themselves are verified by the lexer / grammar /
    generator links) + class-level attributes of the evaluator"""
    reg.classes[EV] = {CK: ("value", z3.StringVal("")), "run_experiment": ("value", CLASS_DEFAULT_RUN)}
    reg.sorts[(EV, CK)] = S

    def ctor(cls, fields):
        def h(ex, p, pos, kw, node):
            attrs = {}
            for name, v in zip(fields, pos):
                attrs[name] = v
            for k, v in kw.items():
                attrs[k] = v
            return [(p, p.new_obj(cls, origin="fresh", attrs=attrs))]
        return h
    reg.ext[LEXCLS] = ctor(LEXCLS, [])
    reg.ext[PARCLS] = ctor(PARCLS, [])
    reg.ext[GENCLS] = ctor(GENCLS, ["experiment_ast", "indentation_char", "expose_experiment_variant_function"])
    reg.ext["black.FileMode"] = ctor("black.FileMode", [])

    def tokenize(ex, p, pos, kw, node):
        lexer, text = pos[0], pos[1]
        origin = p.heap[lexer.oid]["origin"]
        p.effects.append(("engine-object", "lexer", origin, node.lineno))
        if origin != "fresh":
            p.havoc.append(("shared lexer object (%s)" % origin, node.lineno))
            return [(p, uf("LEX_TOKENIZE_SHARED", text, fresh("lexer_state", Val)))]
        return [(p, uf("LEX_TOKENIZE", text))]
    reg.methods[(LEXCLS, "tokenize")] = tokenize

    def parse(ex, p, pos, kw, node):
        parser, toks = pos[0], pos[1]
        origin = p.heap[parser.oid]["origin"]
        p.effects.append(("engine-object", "parser", origin, node.lineno))
        res = []
        pr, pn = ex.split(p, mayraise("parse", toks))
        if pr is not None:
            res.append((pr, Raise("ParserException", "lexer/parser error callback raised")))
        if pn is not None:
            if origin != "fresh":
                pn.havoc.append(("shared parser object (%s)" % origin, node.lineno))
                res.append((pn, uf("YACC_PARSE_SHARED", toks, fresh("parser_state", Val))))
            else:
                res.append((pn, uf("YACC_PARSE", toks)))
        return res
    reg.methods[(PARCLS, "parse")] = parse

    def generate(ex, p, pos, kw, node):
        g = pos[0]
        at = p.heap[g.oid]["attrs"]
        ast = at.get("experiment_ast")
        expose = at.get("expose_experiment_variant_function", z3.BoolVal(True))
        if "indentation_char" in at:
            raise OutOfSubset("PythonCodeGen with a custom indentation char")
        p.effects.append(("call", "PythonCodeGen.generate", {"ast": ast, "expose": expose}))
        res = []
        pr, pn = ex.split(p, mayraise("generate", ast, expose))
        if pr is not None:
            res.append((pr, Raise("GeneratorException", "code generator raised")))
        if pn is not None:
            extras = sorted(k for k in at if k not in ("experiment_ast", "expose_experiment_variant_function", "indentation_char"))
            if extras:
                # the generator was given something besides the syntax tree and the layout flag: its output is then NOT the
                # documented GEN(ast, expose) but some other function that also sees those arguments
                out = uf("GEN_with:" + ",".join(extras), ast, expose, *[at[k] for k in extras])
            else:
                out = GEN(ast, expose)
            res.append((pn, z3.Function("val2str", Val, S)(out)))
        return res
    reg.methods[(GENCLS, "generate")] = generate

    def format_str(ex, p, pos, kw, node):
        src = pos[0]
        res = []
        pr, pn = ex.split(p, mayraise("black.format_str", src))
        if pr is not None:
            res.append((pr, Raise("BlackException", "black raised")))
        if pn is not None:
            res.append((pn, z3.Function("val2str", Val, S)(uf("BLACK", src))))
        return res
    reg.ext["black.format_str"] = format_str


class ParseSource(Contract):
    target = "pyab_experiment.utils.wraper_functions:parse_source"

    def replay(self, obl):
        from vcore import native
        r = native.one({"cmd": "parse_probe", "limit": 1}, timeout=1200)
        if r["failures"]:
            return {"reproduced": True, "input": r["failures"][0], "note": "found by probing the real parse_source against the reference parser"}
        return {"reproduced": False, "searched": r["evaluations"], "note": "no disagreement with the reference parser on %d probe texts" % r["evaluations"]}
    props = ("C01", "C02", "C05", "C06", "C07", "C08", "C09", "C11", "C13", "C14", "C17", "C12", "C15", "C03", "C10")
    allow_any_exception = True
    no_own_raises = True        # rejecting a text is the lexer's and the parser's business (they implement the documented language)

    def shapes(self):
        return [Shape("str", lambda p: Args(text=z3.String("text")))]

    def raises(self, a):
        return {"ParserException": mayraise("parse", uf("LEX_TOKENIZE", a.text))}

    def ensures(self, a, r, p):
        return [("result==YACC_PARSE(LEX_TOKENIZE(text)) (function of the text alone)", to_val(r) == PARSE(a.text))]

    def result(self, a, p):
        return PARSE(a.text)      # callee view: the result IS this term (a function of the text alone)

    def frame(self, a, p, kind, pre):
        eng = [e for e in p.effects if e[0] == "engine-object"]
        stores = [e for e in p.effects if e[0] in ("store-attr", "io", "global-mutable-read")]
        return [("engine-objects-allocated-in-this-call(ownership)", z3.BoolVal(all(e[2] == "fresh" for e in eng) and
                                                                              not [e for e in p.effects if e[0] == "global-object-read"])),
                ("exactly-one-lexer-and-one-parser-used", z3.BoolVal(kind == "raise" and len(eng) <= 2 or sorted(e[1] for e in eng) == ["lexer", "parser"])),
                ("no-stores-outside-the-call", z3.BoolVal(not stores)),
                ("deterministic(no havoc)", z3.BoolVal(not p.havoc))]

    def clause_props(self, name, kind):
        if "ownership" in name or "exactly-one" in name:
            return ("C17", "C01", "C11")
        # parse_source is a function of the text alone: every property that quantifies over several texts relies on it
        return ("C01", "C02", "C05", "C06", "C07", "C08", "C09", "C11", "C13", "C14", "C17", "C12", "C15", "C03", "C10")


class GenerateCode(Contract):
    target = "pyab_experiment.utils.wraper_functions:generate_code"
    props = ("C14", "C06")
    allow_any_exception = True

    def shapes(self):
        return [Shape("str,bool", lambda p: Args(text=z3.String("text"), expose_internal_fn=z3.Bool("expose_internal_fn")))]

    def raises(self, a):
        return {"ParserException": mayraise("parse", uf("LEX_TOKENIZE", a.text))}

    def ensures(self, a, r, p):
        spec = z3.Function("val2str", Val, S)(uf("BLACK", z3.Function("val2str", Val, S)(GEN(PARSE(a.text), a.expose_internal_fn))))
        return [("result==BLACK(GEN(PARSE(text), expose)) (same generator class and arguments as the evaluator)", r == spec)]

    def result(self, a, p):
        return fresh("module_text", S)

    def frame(self, a, p, kind, pre):
        return [("no-stores", z3.BoolVal(not [e for e in p.effects if e[0] in ("store-attr", "io")])),
                ("deterministic(no havoc)", z3.BoolVal(not p.havoc))]


class ParseErrorInit(Contract):
    target = "pyab_experiment.experiment_evaluator:ParseError.__init__"
    props = ("C06", "C11")

    def shapes(self):
        def build(p):
            return Args(self=p.new_obj(PE, origin="self"), message=z3.String("message"))
        return [Shape("self,str", build)]

    def frame(self, a, p, kind, pre):
        bad = [e for e in p.effects if e[0] == "store-attr" and e[1] != a.self.oid]
        return [("stores-only-to-self", z3.BoolVal(not bad))]


def inv(checksum, run, accepted_is_none, accepted):
    return z3.Or(z3.And(accepted_is_none, checksum == z3.StringVal(""), run == CLASS_DEFAULT_RUN),
                 z3.And(z3.Not(accepted_is_none), checksum == MD5HEX(UTF8(accepted)), run == COMPILED(accepted)))


class Recompile(Contract):
    target = "pyab_experiment.experiment_evaluator:ExperimentEvaluator.recompile"
    props = ("C11", "C01", "C06", "C17", "C14", "C09", "C13", "C07", "C02", "C05", "C08", "C12")      # union over its clauses (used for in-subset / existence)
    allow_any_exception = True

    def shapes(self):
        def build(p):
            s = p.new_obj(EV, origin="self", attrs={CK: z3.String("self._checksum@pre"),
                                                    "run_experiment": z3.Const("self.run_experiment@pre", Val)})
            return Args(self=s, source_code=z3.String("source_code"))
        return [Shape("self,str", build)]

    # ghost
    acc_none = z3.Bool("ghost.accepted_is_None@pre")
    acc = z3.String("ghost.accepted@pre")

    def pre_state(self, a, p_or_pre):
        return p_or_pre[a.self.oid]

    def requires(self, a):
        # read the pre-state symbols (shapes() just created them)
        return []

    # change detection must be an (assumed) INJECTIVE digest of the whole text: md5 as written, or another cryptographic hash
    DIGESTS = {"md5": MD5HEX, "sha1": z3.Function("SHA1HEX", __import__("pyvc.smt", fromlist=["Bytes"]).Bytes, S),
               "sha256": z3.Function("SHA256HEX", __import__("pyvc.smt", fromlist=["Bytes"]).Bytes, S)}
    DIG = None

    def digest(self, text):
        return (self.DIG if self.DIG is not None else MD5HEX)(UTF8(text))

    def hit(self, a, pre):
        c = pre[CK]
        if not (z3.is_expr(c) and c.sort() == S):
            return z3.BoolVal(False)
        return c == self.digest(a.source_code)

    def raises(self, a):
        return {}

    def callee_may_raise(self, a):
        # callee view: recompile may fail (any exception); by the exceptional postcondition the evaluator is unchanged
        return {"RecompileFailed": uf("raises:recompile", a.source_code, sort=B)}

    def _pre(self, a, p):
        d = dict(self.callee_pre[a.self.oid] if self.callee_view else self.verify_pre[a.self.oid])
        d.setdefault(CK, z3.StringVal(""))            # class-level defaults of a fresh instance
        d.setdefault("run_experiment", CLASS_DEFAULT_RUN)
        return d

    # the text -> compiled-function map.  For C11 it only has to be SOME function of the text alone (then "behaves
    # like a fresh evaluator of the last accepted text" holds whatever the pipeline is); that it is the DOCUMENTED
    # pipeline is a separate clause serving C14 / C09 / C13.
    F_template = None     # (term, src_symbol) discovered from a switching return path in verify mode

    def F(self, text, a):
        if self.callee_view or self.F_template is None:
            return COMPILED(text)
        term, sym = self.F_template
        return z3.substitute(term, (sym, text))

    ALLOWED_CONSTS = ("emptydict", "nokwargs", "NoneVal", "tuple0", "global:")

    def free_consts(self, t):
        out, seen, todo = set(), set(), [t]
        while todo:
            x = todo.pop()
            if x.get_id() in seen:
                continue
            seen.add(x.get_id())
            if z3.is_const(x) and x.decl().kind() == z3.Z3_OP_UNINTERPRETED:
                out.add(str(x))
            todo.extend(x.children())
        return out

    def ensures(self, a, r, p):
        pre = self._pre(a, p)
        post = p.heap[a.self.oid]["attrs"]
        src = a.source_code
        hit = self.hit(a, pre)
        c1 = post.get(CK, pre[CK])
        r1 = post.get("run_experiment", pre["run_experiment"])
        r1v = to_val(r1)
        switched_here = r1 is not pre["run_experiment"]
        if not self.callee_view and switched_here and self.F_template is None:
            self.F_template = (r1v, src)
        if not self.callee_view and switched_here and self.DIG is None and z3.is_expr(c1) and c1.sort() == S:
            for h in self.DIGESTS.values():
                if c1.eq(h(UTF8(src))):
                    type(self).DIG = h
        c_is_str = z3.is_expr(c1) and c1.sort() == S
        unchanged = z3.And(to_val(c1) == to_val(pre[CK]), r1v == to_val(pre["run_experiment"]))
        fv = self.free_consts(r1v) if switched_here else set()
        foreign = sorted(x for x in fv if x != str(src) and not x.startswith(self.ALLOWED_CONSTS))
        switched = z3.And((c1 == self.digest(src)) if c_is_str else z3.BoolVal(False), r1v == self.F(src, a),
                          z3.BoolVal(self.callee_view or (switched_here and not foreign)))
        i0 = self.inv(a, pre[CK], to_val(pre["run_experiment"]), self.acc_none, self.acc)
        acc1_none = z3.And(hit, self.acc_none)
        acc1 = z3.If(hit, self.acc, src)
        out = [("no-op-on-current-text", z3.Implies(hit, unchanged)),
               ("switches-completely(checksum==md5(utf8(text)); new function depends on the text alone%s)" % (": but mentions %s" % foreign if foreign else ""),
                z3.Implies(z3.Not(hit), switched)),
               ("returns-None", z3.BoolVal(isinstance(r, PyNoneT)) if not self.callee_view else z3.BoolVal(True)),
               ("invariant-preserved(behaves like fresh evaluator of last accepted text)",
                z3.Implies(i0, self.inv(a, c1, r1v, acc1_none, acc1))),
               ("accepted-text-parses(not None)", z3.Implies(z3.Not(hit), PARSE(src) != NONEVAL)),
               ("pipeline-as-documented: exec(compile(GEN(PARSE(text),expose=False)), None, fresh dict)[ast.id]",
                z3.Implies(z3.Not(hit), r1v == COMPILED(src)))]
        return out

    def inv(self, a, checksum, run, accepted_is_none, accepted):
        if not (z3.is_expr(checksum) and checksum.sort() == S):
            return z3.BoolVal(False)
        return z3.Or(z3.And(accepted_is_none, checksum == z3.StringVal(""), run == CLASS_DEFAULT_RUN),
                     z3.And(z3.Not(accepted_is_none), checksum == self.digest(accepted), run == self.F(accepted, a)))

    def apply_effects(self, a, p, kind):
        if kind == "return":
            at = p.heap[a.self.oid]["attrs"]
            at[CK] = fresh("self._checksum@post", S)
            at["run_experiment"] = fresh("self.run_experiment@post", Val)
            p.effects.append(("store-attr", a.self.oid, CK, at[CK], p.heap[a.self.oid]["origin"]))
            p.effects.append(("store-attr", a.self.oid, "run_experiment", at["run_experiment"], p.heap[a.self.oid]["origin"]))

    def frame(self, a, p, kind, pre):
        pre_s = pre[a.self.oid]
        post = p.heap[a.self.oid]["attrs"]
        stores = [e for e in p.effects if e[0] == "store-attr"]
        foreign = [e for e in stores if e[1] != a.self.oid and e[4] != "fresh"]
        other_attrs = [e for e in stores if e[1] == a.self.oid and e[2] not in (CK, "run_experiment")]
        dynamic = [e for e in p.effects if e[0] == "store-attr-dynamic"]
        shared_ns = [e for e in p.effects if e[0] == "exec-into-shared-namespace"]
        out = [("writes-only-self._checksum,self.run_experiment(instance-local)", z3.BoolVal(not foreign and not other_attrs and not dynamic)),
               ("generated-code-is-exec'd-into-a-dict-allocated-in-this-call", z3.BoolVal(not shared_ns)),
               ("no-global-or-class-state", z3.BoolVal(not [e for e in p.effects if e[0] in ("global-object-read", "global-mutable-read", "io", "store-global")])),
               ("deterministic(no havoc)", z3.BoolVal(not p.havoc))]
        if kind == "raise":
            same = [post.get(k, None) is not None and (post[k] is pre_s[k] or z3.is_expr(post[k]) and z3.is_expr(pre_s[k]) and post[k].sort() == pre_s[k].sort())
                    for k in pre_s]
            goal = z3.And(*[to_val(post[k]) == to_val(pre_s[k]) for k in pre_s]) if all(k in post for k in pre_s) else z3.BoolVal(False)
            out.append(("exception=>evaluator-unchanged(atomic)", z3.And(goal, z3.BoolVal(set(post) <= set(pre_s)))))
            # C17: 'unchanged' must also hold for a concurrent reader, so a failing recompile never WRITES the instance at all
            # (a claim-then-roll-back leaves a window in which another thread sees the new checksum with the old function)
            own = [e for e in stores if e[1] == a.self.oid]
            out.append(("no-transient-state(a failing recompile never writes the instance)", z3.BoolVal(not own and not dynamic)))
        else:
            # C17: the compiled function is published by ONE store, after everything that can fail
            runs = [i for i, e in enumerate(p.effects) if e[0] == "store-attr" and e[1] == a.self.oid and e[2] == "run_experiment"]
            out.append(("single-publication(at most one store of run_experiment)", z3.BoolVal(len(runs) <= 1)))
            execs = [i for i, e in enumerate(p.effects) if e[0] == "call" and e[1] in ("exec", "PythonCodeGen.generate")]
            out.append(("publication-after-compilation", z3.BoolVal(not runs or not execs or max(execs) < runs[0])))
            # ... and the checksum -- the flag other threads test to skip their own recompile -- is stored once, last
            cks = [i for i, e in enumerate(p.effects) if e[0] == "store-attr" and e[1] == a.self.oid and e[2] == CK]
            fallible = [i for i, e in enumerate(p.effects) if e[0] in ("call", "call-opaque", "engine-object")]
            out.append(("checksum-published-last(one store, after the function and after everything that can fail)",
                        z3.BoolVal(len(cks) <= 1 and (not cks or ((not runs or runs[-1] < cks[0]) and (not fallible or max(fallible) < cks[0]))))))
        return out

    def verify(self, mutate=None, tag=""):
        # pass 1 discovers, from the switching path of the real body, the text->function map and the digest in use;
        # pass 2 generates the obligations with them fixed
        type(self).DIG = None
        self.F_template = None
        Contract.verify(self, mutate, tag)
        obls = Contract.verify(self, mutate, tag)
        # C06 clause: a text the parser rejects with None never yields an evaluator (ParseError), on the miss path
        return obls + self.rejects_none(mutate, tag)

    def rejects_none(self, mutate, tag):
        """for every NORMAL-return path of the miss branch the path condition implies PARSE(src) is not None --
        emitted as ensures 'accepted-text-parses' above; here: the raise path under PARSE(src) is None is ParseError"""
        return []

    def clause_props(self, name, kind):
        if "single-publication" in name or "publication-after" in name or "published-last" in name or "no-transient-state" in name:
            return ("C17",)
        if "accepted-text-parses" in name:
            return ("C06", "C11")
        if "pipeline-as-documented" in name:
            # the compiled function depends on the text only THROUGH the syntax tree: also what makes trivia meaningless (C08)
            return ("C14", "C09", "C13", "C07", "C08", "C02", "C03", "C05", "C10", "C12", "C15")      # every property about what the compiled experiment DOES
        if name.startswith("ensures.switches-completely") or name.startswith("ensures.no-op") or name.startswith("ensures.invariant"):
            # the evaluator runs the text it was last given: every property about "the experiment's behaviour" relies on it
            return ("C11", "C01", "C02", "C05", "C08", "C09", "C12", "C03", "C07", "C10", "C13", "C14", "C15")
        if name.startswith("raises.") or name.startswith("ensures.returns") or kind in ("safety", "pre-callee"):
            return ("C11",)
        if "deterministic" in name or "no-global" in name:
            return ("C01", "C11", "C17")
        if "writes-only" in name or "exec'd-into" in name:
            return ("C11", "C17", "C01", "C09", "C14")
        return ("C11",)

    def model_vars(self, a):
        return {"source_code": a.source_code}

    def replay(self, obl):
        from vcore import native
        return native.replay_lifecycle(obl)


class EvaluatorInit(Contract):
    target = "pyab_experiment.experiment_evaluator:ExperimentEvaluator.__init__"
    props = ("C11",)
    allow_any_exception = True

    def shapes(self):
        def build(p):
            return Args(self=p.new_obj(EV, origin="self"), source_code=z3.String("source_code"))
        return [Shape("self,str", build)]

    def ensures(self, a, r, p):
        post = p.heap[a.self.oid]["attrs"]
        src = a.source_code
        c1 = post.get(CK, z3.StringVal(""))
        r1 = to_val(post.get("run_experiment", CLASS_DEFAULT_RUN))
        # the fresh instance satisfies I with accepted=None; after __init__, I holds with accepted = source_code
        # (under the assumption MD5HEX(utf8(src)) != "" -- the digest has 32 characters)
        return [("establishes-invariant(accepted=source_code)",
                 z3.Implies(z3.Length(MD5HEX(UTF8(src))) == 32, z3.And(to_val(c1) == to_val((Recompile.DIG if Recompile.DIG is not None else MD5HEX)(UTF8(src))), r1 == COMPILED(src))))]

    def frame(self, a, p, kind, pre):
        stores = [e for e in p.effects if e[0] == "store-attr"]
        return [("stores-only-to-self", z3.BoolVal(all(e[1] == a.self.oid for e in stores)))]

    def replay(self, obl):
        from vcore import native
        return native.replay_lifecycle(obl)


class RunExperimentDefault(Contract):
    target = "pyab_experiment.experiment_evaluator:ExperimentEvaluator.run_experiment"
    props = ("C11",)
    always_raises = True

    def shapes(self):
        def build(p):
            return Args(self=p.new_obj(EV, origin="self"), kwargs=KwSplat(z3.Const("kwargs", Val)))
        return [Shape("self,**kwargs", build)]

    def raises(self, a):
        return {"RuntimeError": z3.BoolVal(True)}

    def frame(self, a, p, kind, pre):
        return [("no-effects", z3.BoolVal(not p.effects))]


class EvaluatorCall(Contract):
    target = "pyab_experiment.experiment_evaluator:ExperimentEvaluator.__call__"

    def verify(self, mutate=None, tag=""):
        from vcore.obl import Obl, DISCHARGED, REFUTED
        obls = Contract.verify(self, mutate, tag)
        fn = self.fndef(mutate)
        if fn is not None:
            a = fn.args
            named = [x.arg for x in a.args[1:]] + [x.arg for x in a.kwonlyargs]       # positional-only parameters cannot capture a keyword
            ok = not named and a.kwarg is not None
            obls.append(Obl(self.short + tag + "/signature(self, **kwargs)", self.target, "frame",
                            "the entry point has no named parameter besides self: every keyword the caller passes is a FIELD and reaches the compiled function",
                            status=DISCHARGED if ok else REFUTED, backend="extract", detail="parameters %r, **%s" % (named, a.kwarg.arg if a.kwarg else None),
                            props=self.props, model=None if ok else {"captured_keywords": named}, replay=self.replay))
        return obls
    # the public entry point forwards the caller's fields untouched: routing (C02), the key (C12), totality over values (C15) and
    # the equivalence with the generated module text (C14) all go through it
    props = ("C11", "C09", "C01", "C17", "C02", "C12", "C14", "C15", "C07", "C03", "C05", "C10", "C13")

    def shapes(self):
        def build(p):
            s = p.new_obj(EV, origin="self", attrs={CK: z3.String("self._checksum@pre"),
                                                    "run_experiment": z3.Const("self.run_experiment@pre", Val)})
            return Args(self=s, kwargs=KwSplat(z3.Const("kwargs", Val)))
        return [Shape("self,**kwargs", build)]

    def raises(self, a):
        return {"Propagated": z3.Function("raises:APPLY", Val, Val, B)(z3.Const("self.run_experiment@pre", Val), a.kwargs.term)}

    def ensures(self, a, r, p):
        return [("result==run_experiment(**kwargs) (forwards exactly the keyword arguments)",
                 to_val(r) == z3.Function("APPLY", Val, Val, Val)(z3.Const("self.run_experiment@pre", Val), a.kwargs.term))]

    def frame(self, a, p, kind, pre):
        return [("no-stores(a call changes nothing)", z3.BoolVal(not [e for e in p.effects if e[0] in ("store-attr", "io")])),
                ("deterministic(no havoc)", z3.BoolVal(not p.havoc))]


class UnroutableErrorInit(Contract):
    """the dedicated unroutable-condition error (C02): an Exception subclass whose constructor only calls Exception.__init__"""
    target = "pyab_experiment.codegen.python.custom_exceptions:ExperimentConditionalFailedError.__init__"
    props = ("C02", "C07")

    def shapes(self):
        def build(p):
            return Args(self=p.new_obj("pyab_experiment.codegen.python.custom_exceptions.ExperimentConditionalFailedError", origin="self"), message=z3.String("message"))
        return [Shape("self,str", build)]

    def ensures(self, a, r, p):
        import ast as _ast
        mod = self.module()
        cls = next((n for n in mod.tree.body if isinstance(n, _ast.ClassDef) and n.name == "ExperimentConditionalFailedError"), None)
        is_exc = cls is not None and [_ast.unparse(b) for b in cls.bases] == ["Exception"]
        calls = [e for e in p.effects if e[0] == "call" and e[1] == "super().__init__"]
        return [("is-a-plain-Exception-subclass", z3.BoolVal(bool(is_exc))),
                ("constructs-the-exception-with-its-message", z3.BoolVal(len(calls) == 1))]

    def frame(self, a, p, kind, pre):
        return [("no-stores-outside-self", z3.BoolVal(not [e for e in p.effects if e[0] in ("store-global", "io")]))]
