"""Sidecar contract for ExperimentParser.error (C06): a syntax error rejects the text -- for every token and for end of
input the handler raises, so sly's panic-mode recovery (which only runs after error() RETURNS) is dead code."""
from __future__ import annotations

import z3

from pyvc.contract import Contract, Shape, Args
from pyvc.smt import NONE, S, I

TOK = "pyab_experiment.sly.lex.Token"
PAR = "pyab_experiment.language.grammar.ExperimentParser"


def setup(reg):
    reg.sorts[(TOK, "type")] = S
    reg.sorts[(TOK, "lineno")] = I


class ParserError(Contract):
    target = "pyab_experiment.language.grammar:ExperimentParser.error"
    props = ("C06", "C11", "C07", "C02")
    allow_any_exception = True
    always_raises = True

    def shapes(self):
        def tok(p):
            return Args(self=p.new_obj(PAR, origin="self"), token=p.new_obj(TOK, origin="arg:token", attrs={"type": z3.String("token.type"), "lineno": z3.Int("token.lineno")}))

        def eof(p):
            return Args(self=p.new_obj(PAR, origin="self"), token=NONE)
        return [Shape("token", tok), Shape("end-of-input", eof)]

    def ensures(self, a, r, p):
        return [("syntax-error-rejects-the-text(raises; panic-mode recovery never runs)", z3.BoolVal(False))]

    def frame(self, a, p, kind, pre):
        return [("no-stores", z3.BoolVal(not [e for e in p.effects if e[0] in ("store-attr", "store-global")]))]

    def replay(self, obl):
        from vcore.links_gram import parser_replay
        return parser_replay(obl)
