"""Thorough tier: the ASSUMED contract of bisect.bisect_right (pyvc/registry.py) is PROVED for CPython's own
pure-Python implementation Lib/bisect.py (the file of the product interpreter, read on every run) with a loop invariant.
What stays assumed: the C accelerator `_bisect`, which CPython imports over it, agrees with this reference code."""
from __future__ import annotations

import ast
import os
import subprocess

import z3

from pyvc.contract import Contract, Shape, Args
from pyvc.smt import I, R, NONE, PyList


def stdlib_path():
    py = os.environ.get("VERIF_NATIVE_PY", "/venv/bin/python")
    out = subprocess.run([py, "-c", "import bisect; print(bisect.__file__)"], capture_output=True, text=True, timeout=60).stdout.strip()
    return out


class BisectRight(Contract):
    target = "bisect:bisect_right"
    props = ("C03", "C16", "C10")

    def __init__(self, reg, tier="quick"):
        Contract.__init__(self, reg, tier)
        self.source_path = stdlib_path()
        # loop invariant, keyed by "the while loop whose test is `lo < hi` and whose body compares x with a[mid]"
        i = z3.Int("j!inv")

        def inv(p):
            a, x, lo, hi = p.env["a"], p.env["x"], p.env["lo"], p.env["hi"]
            lo0, hi0 = z3.Int("lo@entry"), z3.Int("hi@entry")
            return z3.And(lo0 <= lo, lo <= hi, hi <= hi0,
                          z3.ForAll([i], z3.Implies(z3.And(lo0 <= i, i < lo), a.arr[i] <= x)),
                          z3.ForAll([i], z3.Implies(z3.And(hi <= i, i < hi0), a.arr[i] > x)))

        def variant(p):
            return p.env["hi"] - p.env["lo"]

        def is_plain_loop(node):
            return isinstance(node, ast.While) and ast.unparse(node.test) == "lo < hi" and "key(" not in ast.unparse(node)
        reg.loops[("bisect", is_plain_loop)] = (inv, ["lo", "hi"], variant)

    def shapes(self):
        def build(p):
            a = PyList(z3.Array("a", I, R), z3.Int("n"), R, origin="arg:a")
            return Args(a=a, x=z3.Real("x"), lo=z3.Int("lo@entry"), hi=z3.Int("hi@entry"), key=NONE)
        return [Shape("list[float],float,int,int,key=None", build)]

    def requires(self, a):
        i, j = z3.Int("i!req"), z3.Int("j!req")
        lo, hi = z3.Int("lo@entry"), z3.Int("hi@entry")
        return [a.a.n >= 0, lo <= hi, hi <= a.a.n,
                # pairwise sortedness of a[lo:hi] (follows from adjacent sortedness by the Lean lemma adj_sorted_pairwise)
                z3.ForAll([i, j], z3.Implies(z3.And(lo <= i, i <= j, j < hi), a.a.arr[i] <= a.a.arr[j]))]

    def raises(self, a):
        return {"ValueError": z3.Int("lo@entry") < 0}

    def ensures(self, a, r, p):
        j = z3.Int("j!post")
        lo, hi = z3.Int("lo@entry"), z3.Int("hi@entry")
        return [("lo<=r<=hi", z3.And(lo <= r, r <= hi)),
                ("all-left<=x", z3.ForAll([j], z3.Implies(z3.And(lo <= j, j < r), a.a.arr[j] <= a.x))),
                ("all-right>x", z3.ForAll([j], z3.Implies(z3.And(r <= j, j < hi), a.a.arr[j] > a.x)))]

    def frame(self, a, p, kind, pre):
        return [("argument-list-unmodified", z3.BoolVal(not [e for e in p.effects if e[0] in ("mutate-list", "store-attr")]))]


def obligations(reg, tier):
    c = BisectRight(reg, tier)
    return c.verify()
