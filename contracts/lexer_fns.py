"""Sidecar contracts for the token functions and callbacks in language/lexer.py (C05 values, C06 error, C08 state)."""
from __future__ import annotations

import z3

from pyvc.contract import Contract, Shape, Args
from pyvc.registry import FLOATVAL, INTVAL, FLOAT_SYNTAX, INT_SYNTAX
from pyvc.smt import I, R, B, S, Val, NONE, PyObj, PyNoneT, QName, Raise, OutOfSubset, to_val

LEX = "pyab_experiment.language.lexer.ExperimentLexer"
BC = "pyab_experiment.language.lexer.BlockComment"
TOK = "pyab_experiment.sly.lex.Token"
# FLOAT_SYNTAX / INT_SYNTAX of a lexeme are proved by rxvc (obligations lex:main/NON_NEG_*.lexeme-syntax)


def setup(reg):
    for cls in (LEX, BC):
        reg.sorts[(cls, "lineno")] = I
        reg.sorts[(cls, "index")] = I

        def push(ex, p, pos, kw, node):
            tgt = pos[1]
            p.effects.append(("lexer-state", "push", tgt.q if isinstance(tgt, QName) else str(tgt), pos[0].oid))
            return [(p, NONE)]

        def pop(ex, p, pos, kw, node):
            p.effects.append(("lexer-state", "pop", None, pos[0].oid))
            return [(p, NONE)]

        def begin(ex, p, pos, kw, node):
            tgt = pos[1]
            p.effects.append(("lexer-state", "begin", tgt.q if isinstance(tgt, QName) else str(tgt), pos[0].oid))
            return [(p, NONE)]
        reg.methods[(cls, "push_state")] = push
        reg.methods[(cls, "pop_state")] = pop
        reg.methods[(cls, "begin")] = begin
    reg.sorts[(TOK, "value")] = S


class _TokFn(Contract):
    cls = LEX
    props = ("C05",)

    def shapes(self):
        def build(p):
            me = p.new_obj(self.cls, origin="self", attrs={"lineno": z3.Int("self.lineno"), "index": z3.Int("self.index")})
            t = p.new_obj(TOK, origin="arg:t", attrs={"value": z3.String("t.value"), "type": z3.String("t.type")})
            return Args(self=me, t=t)
        return [Shape("self,token", build)]

    def model_vars(self, a):
        return {"t.value": z3.String("t.value")}

    def stores(self, p):
        return [e for e in p.effects if e[0] == "store-attr"]

    def replay(self, obl):
        from vcore.links_lex import tokfn_replay
        return tokfn_replay(self, obl)


class NonNegFloat(_TokFn):
    target = "pyab_experiment.language.lexer:ExperimentLexer.NON_NEG_FLOAT"
    props = ("C05", "C02", "C03", "C10")      # numeric literals are operands (C02) and weights (C03/C10) as well

    def requires(self, a):
        return [FLOAT_SYNTAX(z3.String("t.value"))]

    def ensures(self, a, r, p):
        post = p.heap[a.t.oid]["attrs"]
        v = post["value"]
        return [("returns-the-token", z3.BoolVal(isinstance(r, PyObj) and r.oid == a.t.oid)),
                ("value==float(lexeme)", z3.BoolVal(z3.is_expr(v) and v.sort() == R) and (v == FLOATVAL(z3.String("t.value")) if z3.is_expr(v) and v.sort() == R else z3.BoolVal(False)))]

    def frame(self, a, p, kind, pre):
        return [("stores-only-t.value", z3.BoolVal(all(e[1] == a.t.oid and e[2] == "value" for e in self.stores(p)) and not [e for e in p.effects if e[0] == "lexer-state"]))]


class NonNegInteger(_TokFn):
    target = "pyab_experiment.language.lexer:ExperimentLexer.NON_NEG_INTEGER"
    props = ("C05", "C02", "C03", "C10")

    def requires(self, a):
        return [INT_SYNTAX(z3.String("t.value"))]

    def ensures(self, a, r, p):
        v = p.heap[a.t.oid]["attrs"]["value"]
        isint = z3.is_expr(v) and v.sort() == I
        return [("returns-the-token", z3.BoolVal(isinstance(r, PyObj) and r.oid == a.t.oid)),
                ("value==int(lexeme) (an int, exact for any magnitude)", (v == INTVAL(z3.String("t.value"))) if isint else z3.BoolVal(False))]

    def frame(self, a, p, kind, pre):
        return [("stores-only-t.value", z3.BoolVal(all(e[1] == a.t.oid and e[2] == "value" for e in self.stores(p)) and not [e for e in p.effects if e[0] == "lexer-state"]))]


class StringLiteral(_TokFn):
    target = "pyab_experiment.language.lexer:ExperimentLexer.STRING_LITERAL"
    props = ("C05", "C02", "C12", "C13", "C15", "C09")      # salts, string operands and group names all pass through here

    def requires(self, a):
        return [z3.Length(z3.String("t.value")) >= 2]     # every STRING_LITERAL lexeme is quote + content + quote (rxvc)

    def ensures(self, a, r, p):
        s = z3.String("t.value")
        v = p.heap[a.t.oid]["attrs"]["value"]
        isstr = z3.is_expr(v) and v.sort() == S
        return [("returns-the-token", z3.BoolVal(isinstance(r, PyObj) and r.oid == a.t.oid)),
                ("value==characters-between-the-quotes-verbatim", (v == z3.SubString(s, 1, z3.Length(s) - 2)) if isstr else z3.BoolVal(False))]

    def frame(self, a, p, kind, pre):
        return [("stores-only-t.value", z3.BoolVal(all(e[1] == a.t.oid and e[2] == "value" for e in self.stores(p)) and not [e for e in p.effects if e[0] == "lexer-state"]))]


class BlockCommentStart(_TokFn):
    target = "pyab_experiment.language.lexer:ExperimentLexer.BLOCK_COMMENT_START"
    props = ("C02", "C05", "C06", "C07", "C08", "C09", "C12", "C13", "C15")      # the comment machinery is part of every text

    def ensures(self, a, r, p):
        st = [e for e in p.effects if e[0] == "lexer-state"]
        return [("emits-no-token", z3.BoolVal(isinstance(r, PyNoneT))),
                ("enters-the-comment-state-once", z3.BoolVal(len(st) == 1 and st[0][1] == "push" and st[0][2].endswith(".BlockComment") and st[0][3] == a.self.oid))]

    def frame(self, a, p, kind, pre):
        return [("no-stores", z3.BoolVal(not self.stores(p)))]


class BlockCommentEnd(_TokFn):
    target = "pyab_experiment.language.lexer:BlockComment.BLOCK_COMMENT_END"
    cls = BC
    props = ("C02", "C05", "C06", "C07", "C08", "C09", "C12", "C13", "C15")      # the comment machinery is part of every text

    def ensures(self, a, r, p):
        st = [e for e in p.effects if e[0] == "lexer-state"]
        return [("emits-no-token", z3.BoolVal(isinstance(r, PyNoneT))),
                ("leaves-the-comment-state-once", z3.BoolVal(len(st) == 1 and st[0][1] == "pop" and st[0][3] == a.self.oid))]

    def frame(self, a, p, kind, pre):
        return [("no-stores", z3.BoolVal(not self.stores(p)))]


class BlockCommentContent(_TokFn):
    target = "pyab_experiment.language.lexer:BlockComment.t_block_comment_content"
    cls = BC
    props = ("C02", "C05", "C06", "C07", "C08", "C09", "C12", "C13", "C15")      # the comment machinery is part of every text

    def ensures(self, a, r, p):
        return [("emits-no-token", z3.BoolVal(isinstance(r, PyNoneT)))]

    def frame(self, a, p, kind, pre):
        return [("no-effects", z3.BoolVal(not p.effects))]


class IgnoreNewlineMain(_TokFn):
    target = "pyab_experiment.language.lexer:ExperimentLexer.ignore_newline"
    props = ("C02", "C05", "C06", "C07", "C08", "C09", "C12", "C13", "C15")      # the comment machinery is part of every text

    def ensures(self, a, r, p):
        return [("emits-no-token", z3.BoolVal(isinstance(r, PyNoneT)))]

    def frame(self, a, p, kind, pre):
        return [("stores-only-self.lineno(position bookkeeping)", z3.BoolVal(all(e[1] == a.self.oid and e[2] == "lineno" for e in self.stores(p))
                                                                           and not [e for e in p.effects if e[0] == "lexer-state"]))]


class IgnoreNewlineComment(IgnoreNewlineMain):
    target = "pyab_experiment.language.lexer:BlockComment.ignore_newline"
    cls = BC


class LexerError(_TokFn):
    target = "pyab_experiment.language.lexer:ExperimentLexer.error"
    props = ("C06", "C11", "C13")
    allow_any_exception = True
    always_raises = True

    def requires(self, a):
        return [z3.Length(z3.String("t.value")) >= 1]     # sly passes the non-empty remaining text

    def ensures(self, a, r, p):
        # C06: a character that belongs to no token must reject the text -- never be skipped
        return [("illegal-character-rejects-the-text(raises)", z3.BoolVal(False))]

    def replay(self, obl):
        from vcore import native
        text = 'def e { return "A" weighted 1 @ }'
        real = native.one({"cmd": "tokenize", "texts": [text]})[0]
        return {"input": {"text": text}, "expected": "an exception (the text contains '@', which belongs to no token)", "observed": real,
                "reproduced": real["exc"] is None}
