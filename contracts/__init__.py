"""Sidecar contracts, keyed by the qualified name of the real function under /repo/src."""


def install(tier="quick"):
    from pyvc.registry import Registry
    reg = Registry()
    from . import binning, stats
    mods = [binning, stats]
    try:
        from . import evaluator
        mods.append(evaluator)
    except ImportError:
        pass
    try:
        from . import lexer_fns
        mods.append(lexer_fns)
    except ImportError:
        pass
    from . import grammar
    mods.append(grammar)
    for m in mods:
        for name in dir(m):
            c = getattr(m, name)
            if isinstance(c, type) and getattr(c, "target", "") and c.__module__ == m.__name__:
                inst = c(reg, tier)
                reg.contracts[inst.target.replace(":", ".")] = inst
        if hasattr(m, "setup"):
            m.setup(reg)
    return reg
