"""Sidecar contracts for src/pyab_experiment/utils/stats.py (C18).

Top-level clauses from the property statement: lower <= upper; equals the textbook Agresti-Coull / Wald formula
evaluated with the module's own z-score; narrows as n grows, widens as confidence grows; z symmetric; unknown
method refused.  The textbook formulas are stated ALGEBRAICALLY (centre, half-width, half-width^2) so that
harmless re-arrangements of the arithmetic keep verifying.
"""
from __future__ import annotations

import z3

from pyvc.contract import Contract, Shape, Args, lemma, load_module
from pyvc.registry import LOWER
from pyvc.smt import I, R, B, S, Val, NONE, PyTuple, fresh, LN, SQRT, PI, PI_FACTS, Exec, Path
from vcore.obl import Obl, smt_decider, UNDECIDED

# sqrt(pi/8) = 0.62665706865775012560...; the z-score must be this multiple of |logit| up to 1e-12 relative
KLO = z3.RealVal("0.6266570686571")
KHI = z3.RealVal("0.6266570686584")
CPROBIT = z3.Const("probit_scale", R)     # ghost: the one constant of proportionality (see relational obligations)


def LN_AXIOMS():
    x, y = z3.Real("x!ln"), z3.Real("y!ln")
    return [LN(1) == 0,
            z3.ForAll([x, y], z3.Implies(z3.And(x > 0, y > 0, x < y), LN(x) < LN(y))),
            z3.ForAll([x], z3.Implies(x > 0, LN(1 / x) == -LN(x)))]


def logit_abs(alpha):
    t = LN(alpha / (1 - alpha))
    return z3.If(t >= 0, t, -t)


class Probit(Contract):
    target = "pyab_experiment.utils.stats:probit"
    props = ("C18",)

    def shapes(self):
        return [Shape("float", lambda p: Args(alpha=z3.Real("alpha")))]

    def requires(self, a):
        return [a.alpha > 0, a.alpha < 1] + PI_FACTS

    def ensures(self, a, r, p):
        L = logit_abs(a.alpha)
        if self.callee_view:   # callee view: one constant of proportionality, pinned to sqrt(pi/8) within 1e-12
            return [("scale", z3.And(r == CPROBIT * L, CPROBIT >= KLO, CPROBIT <= KHI)), ("nonneg", r >= 0)]
        return [("z==sqrt(pi/8)*|logit(alpha)| (within 1e-12 relative)", z3.And(KLO * L <= r, r <= KHI * L)),
                ("nonneg", r >= 0)]

    def raises(self, a):
        return {}

    def result(self, a, p):
        return fresh("z", R)

    def frame(self, a, p, kind, pre):
        return [("pure", z3.BoolVal(not p.effects and not p.havoc))]

    def replay(self, obl):
        from vcore import native
        return native.replay_probit(obl)


def probit_relational(reg, tier="quick", mutate=None):
    """two-run (self-composition) obligations on the REAL body of probit:
       symmetry  probit(a) == probit(1-a)   and   proportionality  probit(a1)*L(a2) == probit(a2)*L(a1)"""
    c = Probit(reg, tier)
    fn = c.fndef(mutate)
    out = []
    if fn is None:
        return out
    mod = load_module(c.modname, mutate)

    def run(alpha):
        p = Path()
        p.env["alpha"] = alpha
        p.pc += [alpha > 0, alpha < 1] + PI_FACTS
        ex = Exec(mod, reg, tier)
        res = [(q, k, v) for (q, k, v) in ex.run(fn, p)]
        return res
    from pyvc.smt import OutOfSubset
    try:
        a1, a2 = z3.Real("alpha1"), z3.Real("alpha2")
        r1s, r2s = run(a1), run(a2)
        rs = run(1 - a1)
    except OutOfSubset as e:
        return [Obl("stats.probit/relational/in-subset", c.target, "safety", "body inside subset", status=UNDECIDED,
                    backend="pyvc", detail=str(e), props=("C18",))]
    ax = LN_AXIOMS()
    for i, (p1, k1, v1) in enumerate(r1s):
        if k1 != "return":
            continue
        for j, (p2, k2, v2) in enumerate(rs):
            if k2 != "return":
                continue
            hyps = p1.pc + p1.facts + p2.pc + p2.facts + ax + [LN((1 - a1) / (1 - (1 - a1))) == -LN(a1 / (1 - a1))]
            out.append(Obl("stats.probit/relational.symmetric#p%d.%d" % (i, j), c.target, "post",
                           "probit(alpha) == probit(1 - alpha)", decide=smt_decider(hyps, v1 == v2, tier, model_vars={"alpha": a1}),
                           props=("C18",), replay=lambda o: __import__("vcore.native", fromlist=["x"]).replay_probit(o)))
        for j, (p2, k2, v2) in enumerate(r2s):
            if k2 != "return":
                continue
            hyps = p1.pc + p1.facts + p2.pc + p2.facts
            out.append(Obl("stats.probit/relational.proportional-to-|logit|#p%d.%d" % (i, j), c.target, "post",
                           "probit(a1)*|logit(a2)| == probit(a2)*|logit(a1)| (one constant scale)",
                           decide=smt_decider(hyps, v1 * logit_abs(a2) == v2 * logit_abs(a1), tier, model_vars={"alpha1": a1, "alpha2": a2}),
                           props=("C18",)))
    return out


class ConfidenceInterval(Contract):
    target = "pyab_experiment.utils.stats:confidence_interval"
    props = ("C18",)

    def shapes(self):
        def build(p):
            return Args(n=z3.Int("n"), p=z3.Real("p"), confidence=z3.Real("confidence"), method=z3.String("method"))
        return [Shape("int,float,float,str", build)]

    def requires(self, a):
        return [a.n >= 1, a.p >= 0, a.p <= 1, a.confidence > 0, a.confidence < 1] + PI_FACTS

    def z(self, a):
        return CPROBIT * logit_abs((1 - a.confidence) / 2)

    def raises(self, a):
        m = LOWER(a.method)
        return {"NotImplementedError": z3.And(m != z3.StringVal("agresti-coull"), m != z3.StringVal("wald"))}

    def ensures(self, a, r, p):
        if not (isinstance(r, PyTuple) and len(r.items) == 2):
            return [("returns-a-pair", z3.BoolVal(False))]
        lo, hi = r.items
        n = z3.ToReal(a.n)
        z = self.z(a)
        centre, half = (lo + hi) / 2, (hi - lo) / 2
        m = LOWER(a.method)
        ac = m == z3.StringVal("agresti-coull")
        wald = m == z3.StringVal("wald")
        n2 = n + z * z
        return [("lower<=upper", lo <= hi),
                ("agresti-coull:centre", z3.Implies(ac, centre * n2 == a.p * n + z * z / 2)),
                ("agresti-coull:half-width", z3.Implies(ac, z3.And(half >= 0, half * half * n2 == z * z * centre * (1 - centre)))),
                ("wald:centre", z3.Implies(wald, centre == a.p)),
                ("wald:half-width", z3.Implies(wald, z3.And(half >= 0, half * half * n == z * z * a.p * (1 - a.p))))]

    def result(self, a, p):
        return PyTuple([fresh("lower", R), fresh("upper", R)])

    def frame(self, a, p, kind, pre):
        return [("pure", z3.BoolVal(not p.effects and not p.havoc))]

    def replay(self, obl):
        from vcore import native
        return native.replay_ci(obl)


def lemmas(tier="quick"):
    """consequences of the confidence_interval / probit CONTRACTS (never of the bodies)"""
    out = []
    n1, n2 = z3.Real("n1"), z3.Real("n2")
    p, z, z2 = z3.Real("p"), z3.Real("z"), z3.Real("z2")
    c1, c2, h1, h2 = z3.Real("c1"), z3.Real("c2"), z3.Real("h1"), z3.Real("h2")
    dom = [n1 >= 1, n2 >= n1, p >= 0, p <= 1, z >= 0]

    def ac(n, zz, c, h):
        return [c * (n + zz * zz) == p * n + zz * zz / 2, h >= 0, h * h * (n + zz * zz) == zz * zz * c * (1 - c)]

    def wald(n, zz, h):
        return [h >= 0, h * h * n == zz * zz * p * (1 - p)]
    out.append(lemma("lemma:ci/wald-narrows-with-n", "n1 <= n2 ==> half-width(n2) <= half-width(n1)  (Wald)",
                     dom + wald(n1, z, h1) + wald(n2, z, h2), h2 <= h1, ("C18",), tier))
    out.append(lemma("lemma:ci/agresti-coull-narrows-with-n", "n1 <= n2 ==> half-width(n2) <= half-width(n1)  (Agresti-Coull)",
                     dom + ac(n1, z, c1, h1) + ac(n2, z, c2, h2), h2 <= h1, ("C18",), tier))
    domz = [n1 >= 1, p >= 0, p <= 1, z >= 0, z2 >= z]
    out.append(lemma("lemma:ci/wald-widens-with-z", "z <= z' ==> half-width(z) <= half-width(z')  (Wald)",
                     domz + wald(n1, z, h1) + wald(n1, z2, h2), h1 <= h2, ("C18",), tier))
    out.append(lemma("lemma:ci/agresti-coull-widens-with-z", "z <= z' ==> half-width(z) <= half-width(z')  (Agresti-Coull)",
                     domz + ac(n1, z, c1, h1) + ac(n1, z2, c2, h2), h1 <= h2, ("C18",), tier))
    # z grows with confidence: z = C*|ln(a/(1-a))|, a = (1-conf)/2 < 1/2
    cf1, cf2 = z3.Real("conf1"), z3.Real("conf2")
    a1, a2 = (1 - cf1) / 2, (1 - cf2) / 2
    hyp = LN_AXIOMS() + [cf1 > 0, cf1 <= cf2, cf2 < 1, CPROBIT >= KLO, CPROBIT <= KHI]
    out.append(lemma("lemma:probit/z-grows-with-confidence", "conf1 <= conf2 ==> z(conf1) <= z(conf2)  [ln monotone, ln 1 = 0]",
                     hyp, CPROBIT * logit_abs(a1) <= CPROBIT * logit_abs(a2), ("C18",), tier))
    out.append(lemma("lemma:ci/lower<=upper-in-[.,.]", "Agresti-Coull centre lies in [0,1] and the radicand is >= 0",
                     [n1 >= 1, p >= 0, p <= 1, z >= 0, c1 * (n1 + z * z) == p * n1 + z * z / 2],
                     z3.And(c1 >= 0, c1 <= 1), ("C18",), tier))
    return out
