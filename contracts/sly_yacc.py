"""Step contract of the vendored LR driver loop `pyab_experiment.sly.yacc:Parser.parse`.

Configuration (loop state), with the representation invariant I established by the REAL prologue (executed symbolically):
    statestack SS and symstack YS (the local lists ARE self.statestack / self.symstack), |SS| == |YS| >= 1,
    self.state == SS[-1], lookahead la is None or a (truthy) symbol, the lookahead stack is empty, errorcount == 0,
    k tokens have been pulled from the token iterator (ghost), tables = (lr_action, lr_goto, Productions, defaulted_states).

Step_spec = the textbook LR(1) driver step (Aho/Sethi/Ullman fig. 4.30) with sly's default reductions:
    state in defaulted_states      -> t = defaulted_states[state]                       (no lookahead is pulled)
    otherwise                      -> la := la or next token or a fresh `$end` symbol;  t = lr_action[state].get(la.type)
    t > 0   SHIFT    push t / la, state := t, la := None
    t < 0   REDUCE   p = Productions[-t]; slice = top len(p) symbols; value = p.func(self, slice)  (exception propagates);
                     pop len(p), push goto[SS'[-1]][p.name] / a new symbol (type p.name, value, positions of the slice)
    t == 0  ACCEPT   return getattr(YS[-1], 'value', None)
    t None  ERROR    self.error(None if la.type == '$end' else la), which raises (contract of ExperimentParser.error,
                     discharged separately); sly's panic-mode recovery after the call is therefore unreachable and is
                     NOT covered by this contract.

Assumed (listed in evidence): table lookups are total and reductions never pop the `$end` sentinel (LR well-formedness of
configurations; the tables themselves are validated against an independent LALR(1) construction by the lr:* obligations);
grammar actions are deterministic functions of (production, name map, slice) that may raise, do not return the
production object itself and do not assign through it; tokens and symbols are truthy objects; `next(tokens, None)` on an
exhausted iterator keeps returning None.  Position side tables (_line_positions/_index_positions) are outside the contract.
"""
from __future__ import annotations

import ast

import z3

from pyvc.contract import load_module
from pyvc.loopstep import LoopExec, ATTR, DICT_HAS, DICT_GET, find_class_fn, find_driver_loop
from pyvc.registry import Registry
from pyvc.smt import (OutOfSubset, Path, Raise, NONE, PyNoneT, PyObj, PyDict, QName, to_val, fresh, I, B, S, Val, STR2VAL, INT2VAL,
                      NONEVAL, OBJ2VAL, BOOL2VAL)
from vcore.obl import Obl, UNDECIDED, ERROR, DISCHARGED, REFUTED, smt_decider

MOD = "pyab_experiment.sly.yacc"
TARGET = MOD + ":Parser.parse"
LIST = "builtins.list"
AV = z3.ArraySort(I, Val)
VAL2INT = z3.Function("val2int", Val, I)
TRUTHY = z3.Function("truthy", Val, B)
HASATTR = z3.Function("hasattr", Val, Val, B)
SLICE = z3.Function("list_slice", AV, I, I, Val)       # the list [arr[lo], ..., arr[lo+len-1]]
EMPTYLIST = z3.Const("empty_list", Val)
ACT_RAISES = z3.Function("action_raises", Val, Val, Val, B)
ACT_VALUE = z3.Function("action_value", Val, Val, Val, Val)
TOK_RAISES = z3.Function("token_stream_raises_at", I, B)
TOKS = z3.Const("TOKS", AV)
NTOK = z3.Int("NTOK")
INT_ATTRS = {"len": z3.Function("attr_int:len", Val, I)}
SYM_FIELDS = ("type", "value", "lineno", "index", "end")


def is_list(p, v):
    return isinstance(v, PyObj) and p.heap[v.oid]["cls"] == LIST


def new_list(p, arr=None, n=None, slice_of=None):
    return p.new_obj(LIST, attrs={"arr": arr if arr is not None else fresh("arr", AV), "n": n if n is not None else z3.IntVal(0), "slice_of": slice_of})


def list_val(p, v):
    """canonical Val of a list passed to an opaque function"""
    at = p.heap[v.oid]["attrs"]
    n = z3.simplify(at["n"])
    if z3.is_int_value(n) and n.as_long() == 0:
        return EMPTYLIST
    if at.get("slice_of") is not None:
        return SLICE(*at["slice_of"])
    return SLICE(at["arr"], z3.IntVal(0), at["n"])


class ParseExec(LoopExec):
    """LoopExec + mutable lists on the heap + the few extra forms the LR driver uses"""

    def truth(self, v, p):
        if is_list(p, v):
            return p.heap[v.oid]["attrs"]["n"] != 0
        return LoopExec.truth(self, v, p)

    def ex_List(self, e, p):
        out = []
        for p2, vs in self.seq(e.elts, p):
            if isinstance(vs, Raise):
                out.append((p2, vs))
                continue
            arr = fresh("arr", AV)
            for i, v in enumerate(vs):
                arr = z3.Store(arr, i, to_val(v))
            out.append((p2, new_list(p2, arr, z3.IntVal(len(vs)))))
        return out

    def ex_Attribute(self, e, p):
        out = []
        for p1, base in self.expr(e.value, p):
            if z3.is_expr(base) and base.sort() == Val:
                b = z3.simplify(base)
                if z3.is_app(b) and b.decl().name() == "obj2val" and z3.is_int_value(b.arg(0)) and b.arg(0).as_long() in p1.heap:
                    out.append((p1, self.load_attr(p1, PyObj(b.arg(0).as_long()), e.attr)))      # a fresh object read back from a list
                elif e.attr in INT_ATTRS:
                    out.append((p1, INT_ATTRS[e.attr](base)))
                else:
                    out.append((p1, ATTR(e.attr)(base)))
            else:
                out.extend(LoopExec.ex_Attribute(self, ast.copy_location(ast.Attribute(value=_Lit(base), attr=e.attr, ctx=e.ctx), e), p1))
        return out

    def expr(self, e, p):
        if isinstance(e, _Lit):
            return [(p, e.v)]
        return LoopExec.expr(self, e, p)

    def index(self, e, base, ix, p):
        if is_list(p, base):
            at = p.heap[base.oid]["attrs"]
            n = at["n"]
            if not (z3.is_expr(ix) and ix.sort() == I):
                raise OutOfSubset("list index of sort %s (line %d)" % (ix.sort() if z3.is_expr(ix) else type(ix).__name__, e.lineno))
            ix2 = z3.If(ix < 0, ix + n, ix)
            pok, pbad = self.split(p, z3.And(ix2 >= 0, ix2 < n))
            res = []
            if pbad is not None:
                res.append((pbad, Raise("IndexError", "line %d" % e.lineno)))
            if pok is not None:
                res.append((pok, z3.Select(at["arr"], z3.simplify(ix2))))
            return res
        if z3.is_expr(base) and base.sort() == Val:
            # a table of the generated parser (lr_action / lr_goto row / Productions / defaulted_states): total by LR
            # well-formedness (assumed, see module docstring)
            self.reg.assumed_total.add(e.lineno)
            return [(p, DICT_GET(base, to_val(ix)))]
        return LoopExec.index(self, e, base, ix, p)

    def _bounds(self, p, base, sl):
        at = p.heap[base.oid]["attrs"]
        n = at["n"]
        vals = []
        for b in (sl.lower, sl.upper):
            if b is None:
                vals.append(None)
                continue
            outs = self.expr(b, p)
            if len(outs) != 1 or isinstance(outs[0][1], Raise) or not (z3.is_expr(outs[0][1]) and outs[0][1].sort() == I):
                raise OutOfSubset("slice bound (line %d)" % b.lineno)
            vals.append(outs[0][1])

        def clamp(x):
            x = z3.If(x < 0, x + n, x)
            return z3.If(x < 0, 0, z3.If(x > n, n, x))
        lo = clamp(vals[0]) if vals[0] is not None else z3.IntVal(0)
        hi = clamp(vals[1]) if vals[1] is not None else n
        return at, z3.simplify(lo), z3.simplify(hi)

    def slice(self, e, base, p):
        if is_list(p, base):
            if e.slice.step is not None:
                raise OutOfSubset("slice step")
            at, lo, hi = self._bounds(p, base, e.slice)
            ln = z3.If(hi > lo, hi - lo, 0)
            j = z3.Int("j!slice")
            arr2 = z3.Lambda([j], z3.Select(at["arr"], j + lo))
            return [(p, new_list(p, arr2, z3.simplify(ln), slice_of=(at["arr"], lo, z3.simplify(ln))))]
        return LoopExec.slice(self, e, base, p)

    def st_Delete(self, st, rest, p):
        if len(st.targets) != 1 or not (isinstance(st.targets[0], ast.Subscript) and isinstance(st.targets[0].slice, ast.Slice)):
            raise OutOfSubset("del of anything but one list slice (line %d)" % st.lineno)
        tgt = st.targets[0]

        def go(p2, base):
            if not is_list(p2, base):
                raise OutOfSubset("del slice of a non-list (line %d)" % st.lineno)
            at, lo, hi = self._bounds(p2, base, tgt.slice)
            if tgt.slice.upper is not None:
                raise OutOfSubset("del x[a:b] with an upper bound")
            at["n"] = z3.simplify(z3.If(lo < at["n"], lo, at["n"]))      # del x[lo:] keeps the first lo elements
            at["slice_of"] = None
            p2.effects.append(("mutate-list", base.oid))
            self.block(rest, p2)
        self.each(tgt.value, p, go)

    def store(self, tgt, v, p, k):
        if isinstance(tgt, ast.Subscript):
            def go(p2, base):
                def go2(p3, key):
                    p3.effects.append(("store-item", to_val(base) if not isinstance(base, PyDict) else base.oid, to_val(key), to_val(v), tgt.lineno))
                    k(p3)
                self.each(tgt.slice, p2, go2)
            return self.each(tgt.value, p, go)
        return LoopExec.store(self, tgt, v, p, k)

    def compare(self, op, a, b, p):
        if isinstance(op, (ast.Is, ast.IsNot)) and not isinstance(a, PyNoneT) and not isinstance(b, PyNoneT):
            r = to_val(a) == to_val(b)          # identity of objects / opaque values
            return r if isinstance(op, ast.Is) else z3.Not(r)
        if z3.is_expr(a) and z3.is_expr(b) and {str(a.sort()), str(b.sort())} == {"Val", "Int"}:
            a = VAL2INT(a) if a.sort() == Val else a       # table entries are ints
            b = VAL2INT(b) if b.sort() == Val else b
        return LoopExec.compare(self, op, a, b, p)

    def ex_UnaryOp(self, e, p):
        if isinstance(e.op, ast.USub):
            out = []
            for p1, v in self.expr(e.operand, p):
                if z3.is_expr(v) and v.sort() == Val:
                    out.append((p1, -VAL2INT(v)))
                else:
                    out.extend(LoopExec.ex_UnaryOp(self, ast.copy_location(ast.UnaryOp(op=e.op, operand=_Lit(v)), e), p1))
            return out
        return LoopExec.ex_UnaryOp(self, e, p)


class _Lit(ast.expr):
    """an already evaluated value re-entering expr()"""
    _fields = ()

    def __init__(self, v):
        ast.expr.__init__(self)
        self.v = v
        self.lineno = 0


class ParseRegistry(Registry):
    def __init__(self):
        Registry.__init__(self)
        self.assumed_total = set()
        self.val_methods = {"get": self.dict_get_method, "func": self.action_call}
        self.ext[MOD + ".YaccSymbol"] = lambda ex, p, pos, kw, node: [(p, p.new_obj(MOD + ".YaccSymbol"))]
        self.ext[MOD + ".YaccProduction"] = self.production_ctor
        self.ext["builtins.next"] = self.b_next
        self.ext["builtins.len"] = self.b_len
        self.ext["builtins.hasattr"] = self.b_hasattr
        self.ext["builtins.getattr"] = self.b_getattr
        self.ext["builtins.id"] = lambda ex, p, pos, kw, node: [(p, z3.Function("id_of", Val, Val)(to_val(pos[0])))]
        self.methods[(LIST, "append")] = self.l_append
        self.methods[(LIST, "pop")] = self.l_pop
        self.methods[(MOD + ".Parser", "error")] = self.error_call
        self.sorts[(MOD + ".Parser", "track_positions")] = B

    def production_ctor(self, ex, p, pos, kw, node):
        # YaccProduction.__init__(s, stack=None): three slot stores (checked structurally in obligations())
        o = p.new_obj(MOD + ".YaccProduction", attrs={"_slice": pos[0] if pos else NONE, "_stack": pos[1] if len(pos) > 1 else kw.get("stack", NONE)})
        return [(p, o)]

    def b_len(self, ex, p, pos, kw, node):
        if is_list(p, pos[0]):
            return [(p, p.heap[pos[0].oid]["attrs"]["n"])]
        raise OutOfSubset("len() of a non-list in the LR driver (line %d)" % node.lineno)

    def b_hasattr(self, ex, p, pos, kw, node):
        return [(p, HASATTR(to_val(pos[0]), to_val(pos[1])))]

    def b_getattr(self, ex, p, pos, kw, node):
        if len(pos) != 3:
            raise OutOfSubset("getattr without default")
        name = z3.simplify(pos[1])
        if not z3.is_string_value(name):
            raise OutOfSubset("getattr with a computed name")
        v = to_val(pos[0])
        return [(p, z3.If(HASATTR(v, STR2VAL(name)), ATTR(name.as_string())(v), to_val(pos[2])))]

    def b_next(self, ex, p, pos, kw, node):
        if len(pos) != 2 or not isinstance(pos[1], PyNoneT) or not (isinstance(pos[0], PyObj) and p.heap[pos[0].oid]["cls"] == "iterator"):
            raise OutOfSubset("next() other than next(tokens, None)")
        k = p.ghost["tokens_pulled"]
        out = []
        # the token stream is the lexer's generator: pulling from it may raise (LexError from the lexer's error())
        pr, p = ex.split(p, TOK_RAISES(k))
        if pr is not None:
            out.append((pr, Raise("TokenStreamRaised", "the token iterator raised while the next token was pulled (line %d)" % node.lineno)))
        if p is None:
            return out
        pt, pf = ex.split(p, k < NTOK)
        if pt is not None:
            pt.ghost["tokens_pulled"] = k + 1
            pt.facts.append(TRUTHY(z3.Select(TOKS, k)))
            out.append((pt, z3.Select(TOKS, k)))
        if pf is not None:
            out.append((pf, NONE))
        return out

    def dict_get_method(self, ex, p, pos, kw, node):
        if len(pos) not in (2, 3) or kw:
            raise OutOfSubset("mapping.get with %d arguments" % (len(pos) - 1))
        d, k = pos[0], to_val(pos[1])
        default = to_val(pos[2]) if len(pos) == 3 else NONEVAL
        return [(p, z3.If(DICT_HAS(d, k), DICT_GET(d, k), default))]

    def l_append(self, ex, p, pos, kw, node):
        at = p.heap[pos[0].oid]["attrs"]
        at["arr"] = z3.Store(at["arr"], at["n"], to_val(pos[1]))
        at["n"] = z3.simplify(at["n"] + 1)
        at["slice_of"] = None
        p.effects.append(("mutate-list", pos[0].oid))
        return [(p, NONE)]

    def l_pop(self, ex, p, pos, kw, node):
        if len(pos) != 1:
            raise OutOfSubset("list.pop(i)")
        at = p.heap[pos[0].oid]["attrs"]
        pok, pbad = ex.split(p, at["n"] > 0)
        out = []
        if pbad is not None:
            out.append((pbad, Raise("IndexError", "pop from empty list (line %d)" % node.lineno)))
        if pok is not None:
            a2 = pok.heap[pos[0].oid]["attrs"]
            v = z3.Select(a2["arr"], a2["n"] - 1)
            a2["n"] = z3.simplify(a2["n"] - 1)
            a2["slice_of"] = None
            pok.effects.append(("mutate-list", pos[0].oid))
            out.append((pok, v))
        return out

    def action_call(self, ex, p, pos, kw, node):
        """value = p.func(self, pslice): the grammar action of production p on the slice"""
        if len(pos) != 3 or kw or not isinstance(pos[2], PyObj):
            raise OutOfSubset("p.func called with unexpected arguments (line %d)" % node.lineno)
        prodv, selfobj, pslice = pos
        pat = p.heap[pslice.oid]["attrs"]
        sl = pat.get("_slice")
        if not is_list(p, sl):
            raise OutOfSubset("production slice is not a list at the action call")
        a = [to_val(prodv), to_val(pat.get("_namemap", NONE)), list_val(p, sl)]
        p.effects.append(("user-call", ["action"] + a, node.lineno))
        pr, pn = ex.split(p, ACT_RAISES(*a))
        out = []
        if pr is not None:
            out.append((pr, Raise("ActionRaised", "grammar action raised (line %d)" % node.lineno)))
        if pn is not None:
            v = ACT_VALUE(*a)
            pn.facts.append(v != OBJ2VAL(z3.IntVal(pslice.oid)))
            out.append((pn, v))
        return out

    def error_call(self, ex, p, pos, kw, node):
        if len(pos) != 2 or kw:
            raise OutOfSubset("self.error with %d arguments" % (len(pos) - 1))
        p.effects.append(("user-call", ["error", to_val(pos[1])], node.lineno))
        return [(p, Raise("SyntaxErrorRaised", "self.error(token) raises (contract of ExperimentParser.error)"))]


# ---------------------------------------------------------------------------------------------------------------------

class Extracted:
    pass


def extract(mutate=None):
    mod = load_module(MOD, mutate)
    fn = find_class_fn(mod.tree, "Parser", "parse")
    if fn is None:
        raise OutOfSubset("Parser.parse not found")
    x = Extracted()
    x.mod, x.fn = mod, fn
    x.loop, tr = find_driver_loop(fn)
    if tr is not None:
        raise OutOfSubset("LR driver loop inside a try statement")
    x.prologue = [st for st in fn.body if st.lineno < x.loop.lineno]
    if [a.arg for a in fn.args.args] != ["self", "tokens"]:
        raise OutOfSubset("parse(self, tokens) signature changed")
    return x


ROLE_ATTRS = {"lr_action": "actions", "lr_goto": "goto", "Productions": "prod", "defaulted_states": "defaulted"}


def run_prologue(x, reg, tier):
    p = Path()
    selfobj = p.new_obj(MOD + ".Parser", origin="arg:self")
    p.env["self"] = selfobj
    p.env["tokens"] = p.new_obj("iterator", origin="arg:tokens")
    p.ghost["tokens_pulled"] = z3.IntVal(0)
    # the instance lists exist before the first parse? No: parse() creates them; restart() then clears and seeds them
    outs = ParseExec(x.mod, reg, tier).run_block(list(x.prologue), p)
    outs = [(pp, k, v) for (pp, k, v) in outs]
    if not outs or any(k != "fallthrough" for (_, k, _) in outs):
        raise OutOfSubset("prologue does not fall through on every path: %r" % [k for (_, k, _) in outs])
    return selfobj, outs


def obligations(tier="quick", mutate=None, tag="", props=()):
    base = "sly.yacc.Parser.parse" + tag
    mk = lambda oid, kind, text, **kw: Obl("%s/%s" % (base, oid), TARGET, kind, text, props=props, **kw)   # noqa: E731
    out = []
    try:
        x = extract(mutate)
        reg = ParseRegistry()
        selfobj, pro = run_prologue(x, reg, tier)
    except OutOfSubset as e:
        return [mk("in-subset", "safety", "LR driver is inside the supported subset", status=UNDECIDED, backend="pyvc", detail="out of subset: %s" % e)]
    # ---- (1) the prologue establishes the invariant, on each of its paths
    roles = None
    p0 = None
    for k, (pp, _, _) in enumerate(pro):
        env, heap = pp.env, pp.heap
        sat = heap[selfobj.oid]["attrs"]

        def lst(v):
            return heap[v.oid]["attrs"] if is_list(pp, v) else None
        ss, ys, las = lst(env.get("statestack")), lst(env.get("symstack")), lst(env.get("lookaheadstack"))
        conj = []
        shape_ok = ss is not None and ys is not None and las is not None and "errorcount" in env and "lookahead" in env
        if shape_ok:
            shape_ok = (isinstance(sat.get("statestack"), PyObj) and sat["statestack"].oid == env["statestack"].oid
                        and isinstance(sat.get("symstack"), PyObj) and sat["symstack"].oid == env["symstack"].oid)
        if not shape_ok:
            out.append(mk("prologue#p%d/shape" % k, "frame", "the prologue binds statestack/symstack (aliased to the instance attributes), lookaheadstack, lookahead, errorcount",
                          status=REFUTED, backend="pyvc", detail="locals after the prologue: %r" % sorted(env), model={"witness": "prologue shape"}))
            continue
        sym0 = z3.Select(ys["arr"], 0)
        objfacts = object_facts(pp)
        conj = [ss["n"] == 1, ys["n"] == 1, z3.Select(ss["arr"], 0) == to_val(z3.IntVal(0)), to_val(sat.get("state", NONE)) == to_val(z3.IntVal(0)),
                ATTR("type")(sym0) == STR2VAL(z3.StringVal("$end")), las["n"] == 0, to_val(env["errorcount"]) == to_val(z3.IntVal(0)),
                to_val(env["lookahead"]) == NONEVAL, pp.ghost["tokens_pulled"] == 0]
        out.append(mk("prologue#p%d/establishes-invariant" % k, "post", "after the real prologue: stacks [0] / [$end], state 0, no lookahead, empty lookahead stack, errorcount 0, no token pulled",
                      decide=smt_decider(pp.pc + pp.facts + objfacts, z3.And(*conj), tier)))
        r = {}
        for name, v in env.items():
            if z3.is_expr(v) and v.sort() == Val and z3.is_app(v) and v.decl().name().startswith("attr:") and v.decl().name()[5:] in ROLE_ATTRS:
                r[ROLE_ATTRS[v.decl().name()[5:]]] = name
        if roles is None:
            roles, p0 = r, pp
    if p0 is None:
        return out
    ok = sorted(roles) == sorted(ROLE_ATTRS.values())
    out.append(mk("prologue/tables-bound", "frame", "the four parser tables are bound to locals from self._lrtable / self._grammar: %r" % roles,
                  status=DISCHARGED if ok else REFUTED, backend="pyvc", detail=str(roles), model=None if ok else {"witness": str(roles)}))
    if not ok:
        return out
    # ---- (2) an arbitrary configuration satisfying the invariant, on the heap shape the prologue built
    p = p0.fork()
    p.pc, p.facts, p.obls, p.effects = [], [], [], []
    sarr, yarr = z3.Const("SS", AV), z3.Const("YS", AV)
    sn, yn, pos = z3.Int("sn"), z3.Int("yn"), z3.Int("k")
    cur, la = z3.Const("state", Val), z3.Const("la", Val)
    T = {role: z3.Const("tbl_" + role, Val) for role in ROLE_ATTRS.values()}
    for role, var in roles.items():
        p.env[var] = T[role]
    sso, yso = p.env["statestack"], p.env["symstack"]
    p.heap[sso.oid]["attrs"].update({"arr": sarr, "n": sn, "slice_of": None})
    p.heap[yso.oid]["attrs"].update({"arr": yarr, "n": yn, "slice_of": None})
    p.heap[selfobj.oid]["attrs"]["state"] = cur
    p.env["lookahead"] = la
    p.ghost["tokens_pulled"] = pos
    TRACK = z3.Bool("track_positions")
    for name, v in list(p.env.items()):
        if z3.is_expr(v) and v.sort() == B and "track" in name:
            p.env[name] = TRACK
    inv = [sn == yn, sn >= 1, cur == z3.Select(sarr, sn - 1), pos >= 0, z3.Or(la == NONEVAL, TRUTHY(la)), z3.Not(TRUTHY(NONEVAL)), NTOK >= 0]
    p.pc.extend(inv)
    fresh_before = set(p.heap)
    # LR well-formedness of the configuration for each candidate action (assumed, see docstring)
    cands = spec_candidates(T, cur, la, pos)
    for (_, _, _, t) in cands:
        pl = INT_ATTRS["len"](DICT_GET(T["prod"], INT2VAL(-VAL2INT(t))))
        p.pc.append(z3.Implies(z3.And(t != NONEVAL, VAL2INT(t) < 0), z3.And(pl >= 0, pl <= sn - 1)))
    try:
        outs = ParseExec(x.mod, reg, tier).run_block(list(x.loop.body), p)
    except OutOfSubset as e:
        out.append(mk("in-subset", "safety", "LR driver loop body is inside the supported subset", status=UNDECIDED, backend="pyvc", detail="out of subset: %s" % e))
        return out
    mv = {"sn": sn, "k": pos, "NTOK": NTOK}
    covered, allfacts = [], []
    for k, (pp, kind, v) in enumerate(outs):
        objf = object_facts(pp, only_new=fresh_before)
        hyps = pp.pc + pp.facts + objf
        for (name, goal, ln, pc_at, facts_at) in pp.obls:
            out.append(mk("step#p%d/%s" % (k, name), "safety", name, decide=smt_decider(pc_at + facts_at, goal, tier, model_vars=mv)))
        real = real_outcome(pp, kind, v, selfobj)
        goals = [z3.Implies(cond, check(real)) for (cond, check) in spec_cases(T, cur, la, pos, sarr, sn, yarr, yn, TRACK, cands)]
        covered.append(z3.And(*pp.pc))
        allfacts.extend(pp.facts)
        out.append(mk("step#p%d/refines-LR-step" % k, "post", "path %d of the real loop body (%s) equals the LR driver step on every configuration that takes it" % (k, real["kind"]),
                      decide=smt_decider(hyps, z3.And(*goals), tier, model_vars=mv), meta={"path": k, "outcome": real["kind"]}))
        if real["kind"] == "continue":
            s2, y2 = real["ss"], real["ys"]
            invp = [s2["n"] == y2["n"], s2["n"] >= 1, to_val(real["state"]) == z3.Select(s2["arr"], s2["n"] - 1), real["pos"] >= 0,
                    z3.Or(real["la"] == NONEVAL, TRUTHY(real["la"])), real["las_n"] == 0, to_val(real["errorcount"]) == to_val(z3.IntVal(0))]
            out.append(mk("step#p%d/invariant-preserved" % k, "post", "the representation invariant holds again after the iteration",
                          decide=smt_decider(hyps, z3.And(*invp), tier, model_vars=mv)))
    conds = [c for (c, _) in spec_cases(T, cur, la, pos, sarr, sn, yarr, yn, TRACK, cands)]
    out.append(mk("spec/cases-exhaustive", "lemma", "the cases of the LR step cover every configuration", decide=smt_decider(list(p.pc), z3.Or(*conds), tier, model_vars=mv)))
    out.append(mk("step/paths-cover-every-configuration", "lemma", "the feasible paths of the real body cover every configuration satisfying the invariant",
                  decide=smt_decider(list(p.pc) + allfacts, z3.Or(*covered) if covered else z3.BoolVal(False), tier, model_vars=mv)))
    for o in out:
        o.meta.setdefault("assumed_total_lookups_at_lines", sorted(reg.assumed_total))
    return out


def object_facts(p, only_new=None):
    """contents of the objects allocated on this path, as facts about attr:<f>(obj2val(oid)); fresh objects are truthy"""
    fs = []
    for oid, h in p.heap.items():
        if only_new is not None and oid in only_new:
            continue
        if h["cls"] in (MOD + ".YaccSymbol",):
            ov = OBJ2VAL(z3.IntVal(oid))
            fs.append(TRUTHY(ov))
            for f, v in h["attrs"].items():
                try:
                    fs.append(ATTR(f)(ov) == to_val(v))
                except OutOfSubset:
                    pass
    return fs


def real_outcome(pp, kind, v, selfobj):
    r = {"kind": {"fallthrough": "continue", "continue": "continue", "return": "return", "raise": "raise", "break": "break"}.get(kind, kind)}
    if kind == "raise":
        r["kind"] = "raise:" + v.exc
    if kind == "return":
        r["value"] = to_val(v)
    env = pp.env
    r["ss"] = pp.heap[env["statestack"].oid]["attrs"] if is_list(pp, env.get("statestack")) else None
    r["ys"] = pp.heap[env["symstack"].oid]["attrs"] if is_list(pp, env.get("symstack")) else None
    r["state"] = pp.heap[selfobj.oid]["attrs"].get("state", NONE)
    r["la"] = to_val(env["lookahead"]) if "lookahead" in env else None
    r["pos"] = pp.ghost["tokens_pulled"]
    r["las_n"] = pp.heap[env["lookaheadstack"].oid]["attrs"]["n"] if is_list(pp, env.get("lookaheadstack")) else z3.IntVal(-1)
    r["errorcount"] = env.get("errorcount", NONE)
    r["calls"] = [e[1] for e in pp.effects if e[0] == "user-call"]
    return r


def spec_candidates(T, cur, la, pos):
    """the four ways the driver obtains its action t: (name, condition, (la1, pos1, type-of-la1 or None), t)"""
    D = DICT_HAS(T["defaulted"], cur)
    row = DICT_GET(T["actions"], cur)

    def act(ty):
        return z3.If(DICT_HAS(row, ty), DICT_GET(row, ty), NONEVAL)
    tok = z3.Select(TOKS, pos)
    end = STR2VAL(z3.StringVal("$end"))
    return [
        ("defaulted", D, (la, pos, None), DICT_GET(T["defaulted"], cur)),
        ("lookahead-held", z3.And(z3.Not(D), TRUTHY(la)), (la, pos, ATTR("type")(la)), act(ATTR("type")(la))),
        ("token-pulled", z3.And(z3.Not(D), z3.Not(TRUTHY(la)), z3.Not(TOK_RAISES(pos)), pos < NTOK), (tok, pos + 1, ATTR("type")(tok)), act(ATTR("type")(tok))),
        ("end-of-input", z3.And(z3.Not(D), z3.Not(TRUTHY(la)), z3.Not(TOK_RAISES(pos)), pos >= NTOK), ("$end", pos, end), act(end)),
    ]


def stream_raises_case(T, cur, la, pos):
    """pulling the next token raises: the exception propagates out of parse() (nothing is swallowed, nothing is pushed)"""
    D = DICT_HAS(T["defaulted"], cur)
    cond = z3.And(z3.Not(D), z3.Not(TRUTHY(la)), TOK_RAISES(pos))

    def check(real):
        return z3.BoolVal(real["kind"] == "raise:TokenStreamRaised" and not real["calls"])
    return cond, check


def spec_cases(T, cur, la, pos, sarr, sn, yarr, yn, TRACK, cands):
    cases = []
    i = z3.Int("i!spec")
    for (fname, fcond, (la1, pos1, ty), t) in cands:
        ti = VAL2INT(t)
        some = t != NONEVAL

        def same_la(real, la1=la1):
            # the lookahead after fetching: the held one, the pulled token, or a NEW symbol whose type is '$end'
            if isinstance(la1, str):
                return ATTR("type")(real["la"]) == STR2VAL(z3.StringVal("$end"))
            return real["la"] == la1

        def prefix(attrs, arr0, upto):
            return z3.ForAll([i], z3.Implies(z3.And(0 <= i, i < upto), z3.Select(attrs["arr"], i) == z3.Select(arr0, i)))

        # SHIFT
        def shift(real, t=t, la1=la1, pos1=pos1, prefix=prefix):
            if real["kind"] != "continue" or real["calls"]:
                return z3.BoolVal(False)
            s2, y2 = real["ss"], real["ys"]
            pushed = z3.Select(y2["arr"], yn)
            sym_ok = (ATTR("type")(pushed) == STR2VAL(z3.StringVal("$end"))) if isinstance(la1, str) else (pushed == la1)
            return z3.And(s2["n"] == sn + 1, prefix(s2, sarr, sn), z3.Select(s2["arr"], sn) == t, to_val(real["state"]) == t,
                          y2["n"] == yn + 1, prefix(y2, yarr, yn), sym_ok, real["la"] == NONEVAL, real["pos"] == pos1)
        cases.append((z3.And(fcond, some, ti > 0), shift))

        # REDUCE
        pv = DICT_GET(T["prod"], INT2VAL(-ti))
        plen = INT_ATTRS["len"](pv)
        pname = ATTR("name")(pv)
        sl = z3.If(plen == 0, EMPTYLIST, SLICE(yarr, yn - plen, plen))
        A = [pv, ATTR("namemap")(pv), sl]

        def reduce_raises(real, A=A):
            return z3.And(*([z3.BoolVal(real["kind"] == "raise:ActionRaised"), z3.BoolVal(len(real["calls"]) == 1)] +
                            ([x == y for x, y in zip(real["calls"][0][1:], A)] if len(real["calls"]) == 1 else [])))
        cases.append((z3.And(fcond, some, ti < 0, ACT_RAISES(*A)), reduce_raises))

        def reduce(real, A=A, plen=plen, pname=pname, la1=la1, pos1=pos1, same_la=same_la, prefix=prefix):
            if real["kind"] != "continue" or len(real["calls"]) != 1:
                return z3.BoolVal(False)
            s2, y2 = real["ss"], real["ys"]
            top = z3.Select(y2["arr"], yn - plen)
            g = DICT_GET(DICT_GET(T["goto"], z3.Select(sarr, sn - plen - 1)), pname)
            first, last = z3.Select(yarr, yn - plen), z3.Select(yarr, yn - 1)
            posn = z3.Implies(TRACK, z3.If(plen != 0,
                                           z3.And(ATTR("lineno")(top) == ATTR("lineno")(first), ATTR("index")(top) == ATTR("index")(first), ATTR("end")(top) == ATTR("end")(last)),
                                           z3.And(ATTR("lineno")(top) == NONEVAL, ATTR("index")(top) == NONEVAL, ATTR("end")(top) == NONEVAL)))
            return z3.And(*([x == y for x, y in zip(real["calls"][0][1:], A)] +
                            [y2["n"] == yn - plen + 1, prefix(y2, yarr, yn - plen), ATTR("type")(top) == pname, ATTR("value")(top) == ACT_VALUE(*A), posn,
                             s2["n"] == sn - plen + 1, prefix(s2, sarr, sn - plen), z3.Select(s2["arr"], sn - plen) == g, to_val(real["state"]) == g,
                             same_la(real), real["pos"] == pos1]))
        cases.append((z3.And(fcond, some, ti < 0, z3.Not(ACT_RAISES(*A))), reduce))

        # ACCEPT
        def accept(real):
            if real["kind"] != "return" or real["calls"]:
                return z3.BoolVal(False)
            topv = z3.Select(yarr, yn - 1)
            return real["value"] == z3.If(HASATTR(topv, STR2VAL(z3.StringVal("value"))), ATTR("value")(topv), NONEVAL)
        cases.append((z3.And(fcond, some, ti == 0), accept))

        # ERROR
        def error(real, la1=la1, ty=ty):
            if real["kind"] != "raise:SyntaxErrorRaised" or len(real["calls"]) != 1:
                return z3.BoolVal(False)
            arg = real["calls"][0][1]
            if isinstance(la1, str):
                return arg == NONEVAL
            tyv = ty if ty is not None else ATTR("type")(la1)
            return arg == z3.If(tyv == STR2VAL(z3.StringVal("$end")), NONEVAL, la1)
        cases.append((z3.And(fcond, z3.Not(some)), error))
    cases.append(stream_raises_case(T, cur, la, pos))
    return cases
