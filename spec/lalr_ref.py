"""Independent LALR(1) table construction (canonical LR(1) item sets merged by core, yacc precedence rules) from the
documented grammar G_ref.  Used to VALIDATE the tables sly generated for the real grammar: two independent
constructions must yield bisimilar LR automata (vcore/links_gram.py).  Written from the textbook construction
(Aho/Sethi/Ullman 4.7), not from sly.
"""
from . import grammar_ref as G

END = "$end"
START = "S'"


def grammar():
    prods = [(START, (G.START,))] + sorted(G.G_REF.keys())
    nts = {p[0] for p in prods}
    terms = {x for _, rhs in prods for x in rhs if x not in nts}
    return prods, nts, terms


def first_sets(prods, nts):
    first = {n: set() for n in nts}
    nullable = set()
    changed = True
    while changed:
        changed = False
        for lhs, rhs in prods:
            allnull = True
            for x in rhs:
                if x in nts:
                    add = first[x] - first[lhs]
                    if add:
                        first[lhs] |= add
                        changed = True
                    if x not in nullable:
                        allnull = False
                        break
                else:
                    if x not in first[lhs]:
                        first[lhs].add(x)
                        changed = True
                    allnull = False
                    break
            if allnull and lhs not in nullable:
                nullable.add(lhs)
                changed = True
    return first, nullable


def first_of_seq(seq, la, first, nullable, nts):
    out = set()
    for x in seq:
        if x in nts:
            out |= first[x]
            if x not in nullable:
                return out
        else:
            out.add(x)
            return out
    out.add(la)
    return out


def build():
    prods, nts, terms = grammar()
    first, nullable = first_sets(prods, nts)
    by_lhs = {}
    for i, (lhs, rhs) in enumerate(prods):
        by_lhs.setdefault(lhs, []).append(i)

    def closure(items):
        items = set(items)
        todo = list(items)
        while todo:
            (pi, dot, la) = todo.pop()
            rhs = prods[pi][1]
            if dot < len(rhs) and rhs[dot] in nts:
                for b in first_of_seq(rhs[dot + 1:], la, first, nullable, nts):
                    for qi in by_lhs[rhs[dot]]:
                        it = (qi, 0, b)
                        if it not in items:
                            items.add(it)
                            todo.append(it)
        return frozenset(items)

    def goto(items, x):
        return closure({(pi, dot + 1, la) for (pi, dot, la) in items if dot < len(prods[pi][1]) and prods[pi][1][dot] == x})
    # canonical LR(1) collection
    s0 = closure({(0, 0, END)})
    states = [s0]
    index = {s0: 0}
    trans = {}
    todo = [s0]
    while todo:
        s = todo.pop()
        syms = {prods[pi][1][dot] for (pi, dot, la) in s if dot < len(prods[pi][1])}
        for x in syms:
            t = goto(s, x)
            if t not in index:
                index[t] = len(states)
                states.append(t)
                todo.append(t)
            trans[(index[s], x)] = index[t]
    # merge by core (LALR)
    core = lambda s: frozenset((pi, dot) for (pi, dot, la) in s)   # noqa: E731
    cid = {}
    merged = []
    mapto = {}
    for i, s in enumerate(states):
        c = core(s)
        if c not in cid:
            cid[c] = len(merged)
            merged.append(set())
        merged[cid[c]] |= set(s)
        mapto[i] = cid[c]
    mtrans = {}
    for (i, x), j in trans.items():
        mtrans[(mapto[i], x)] = mapto[j]
    # precedence of productions: that of their last terminal that has one
    prec = G.PRECEDENCE
    pprec = {}
    for pi, (lhs, rhs) in enumerate(prods):
        pprec[pi] = None
        for x in reversed(rhs):
            if x in terms and x in prec:
                pprec[pi] = prec[x]
                break
    action = [dict() for _ in merged]
    gotos = [dict() for _ in merged]
    conflicts = []
    for si, s in enumerate(merged):
        for (pi, dot, la) in s:
            rhs = prods[pi][1]
            if dot == len(rhs):
                act = ("accept",) if pi == 0 else ("reduce", pi)
                _set(action[si], la, act, prec, pprec, prods, conflicts, si)
        for (pi, dot, la) in s:
            rhs = prods[pi][1]
            if dot < len(rhs) and rhs[dot] in terms:
                x = rhs[dot]
                _set(action[si], x, ("shift", mtrans[(si, x)]), prec, pprec, prods, conflicts, si)
        for x in nts:
            if (si, x) in mtrans:
                gotos[si][x] = mtrans[(si, x)]
    return {"prods": prods, "action": action, "goto": gotos, "start": mapto[0], "conflicts": conflicts, "terminals": sorted(terms | {END}), "nonterminals": sorted(nts)}


def _set(row, tok, act, prec, pprec, prods, conflicts, si):
    old = row.get(tok)
    if old is None or old == act:
        row[tok] = act
        return
    kinds = {old[0], act[0]}
    if kinds == {"shift", "reduce"}:
        sh = old if old[0] == "shift" else act
        rd = old if old[0] == "reduce" else act
        tp, rp = prec.get(tok), pprec[rd[1]]
        if tp is None or rp is None:
            conflicts.append(("shift/reduce", si, tok))
            row[tok] = sh      # yacc default
            return
        if tp[1] > rp[1]:
            row[tok] = sh
        elif tp[1] < rp[1]:
            row[tok] = rd
        elif tp[0] == "left":
            row[tok] = rd
        elif tp[0] == "right":
            row[tok] = sh
        else:
            row[tok] = ("error",)
        return
    if kinds == {"reduce"}:
        conflicts.append(("reduce/reduce", si, tok))
        row[tok] = old if old[1] < act[1] else act
        return
    conflicts.append(("other", si, tok))
