"""From-scratch MD5 (RFC 1321), independent of hashlib: the reference for the assumed contract of hashlib.md5 and
for the published bucketing scheme (C12).  Pure Python, no imports from the product."""
import math
import struct

_S = [7, 12, 17, 22] * 4 + [5, 9, 14, 20] * 4 + [4, 11, 16, 23] * 4 + [6, 10, 15, 21] * 4
_K = [int(abs(math.sin(i + 1)) * 2 ** 32) & 0xFFFFFFFF for i in range(64)]


def _rol(x, c):
    return ((x << c) | (x >> (32 - c))) & 0xFFFFFFFF


def md5_hex(data: bytes) -> str:
    a0, b0, c0, d0 = 0x67452301, 0xEFCDAB89, 0x98BADCFE, 0x10325476
    msg = bytearray(data)
    bitlen = (8 * len(data)) & 0xFFFFFFFFFFFFFFFF
    msg.append(0x80)
    while len(msg) % 64 != 56:
        msg.append(0)
    msg += struct.pack("<Q", bitlen)
    for off in range(0, len(msg), 64):
        m = struct.unpack("<16I", bytes(msg[off:off + 64]))
        a, b, c, d = a0, b0, c0, d0
        for i in range(64):
            if i < 16:
                f, g = (b & c) | (~b & d), i
            elif i < 32:
                f, g = (d & b) | (~d & c), (5 * i + 1) % 16
            elif i < 48:
                f, g = b ^ c ^ d, (3 * i + 5) % 16
            else:
                f, g = c ^ (b | ~d), (7 * i) % 16
            f = (f + a + _K[i] + m[g]) & 0xFFFFFFFF
            a, d, c = d, c, b
            b = (b + _rol(f, _S[i])) & 0xFFFFFFFF
        a0, b0, c0, d0 = (a0 + a) & 0xFFFFFFFF, (b0 + b) & 0xFFFFFFFF, (c0 + c) & 0xFFFFFFFF, (d0 + d) & 0xFFFFFFFF
    return struct.pack("<4I", a0, b0, c0, d0).hex()


KNOWN_ANSWERS = {   # RFC 1321 appendix A.5
    b"": "d41d8cd98f00b204e9800998ecf8427e",
    b"a": "0cc175b9c0f1b6a831c399e269772661",
    b"abc": "900150983cd24fb0d6963f7d28e17f72",
    b"message digest": "f96b697d7cb7938d525a2f31aaf161d0",
    b"abcdefghijklmnopqrstuvwxyz": "c3fcd3d76192e4007dfb496cca67e13b",
    b"ABCDEFGHIJKLMNOPQRSTUVWXYZabcdefghijklmnopqrstuvwxyz0123456789": "d174ab98d277d9f5a5611c2c9f419d9f",
    b"12345678901234567890123456789012345678901234567890123456789012345678901234567890": "57edf4a22be3c955ac49da2e2107b67a",
}
