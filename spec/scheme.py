"""Spec function `Scheme` (DESIGN §3), written from the property statements C03 / C12, independent of the product.

  key  = (salt or "") + concat(str(env[f]) for f in sorted(set(splitters)))
  pos  = int(md5(utf8(key)).hexdigest()[:8], 16) / 2**32
  group i is selected exactly when pos*T lies in [c[i-1], c[i])  with c = running totals of the weights, T = c[-1]
Pure Python (works under both interpreters); exact arithmetic with Fractions.
"""
from fractions import Fraction

from .md5_ref import md5_hex


def pos_k(key: str) -> int:
    """the 32-bit grid index k of the hash position (pos = k / 2**32)"""
    return int(md5_hex(key.encode("utf-8"))[:8], 16)


def pos(key: str) -> float:
    return pos_k(key) / 2 ** 32      # exact: a 32-bit integer over 2**32


def key_of(salt, splitters, env) -> str:
    return (salt or "") + "".join(str(env[f]) for f in sorted(set(splitters)))


def choose_index(weights, u) -> int:
    """exact interval map; weights are the *values the source text denotes* (ints, Fractions or floats)"""
    c, tot = [], Fraction(0)
    for w in weights:
        tot += Fraction(w)
        c.append(tot)
    if tot <= 0:
        raise ValueError("total weight must be positive")
    x = Fraction(u) * tot
    for i, ci in enumerate(c):
        lo = c[i - 1] if i else Fraction(0)
        if lo <= x < ci:
            return i
    raise AssertionError("unreachable: u in [0,1)")


def choose_index_cum(cum, u) -> int:
    tot = Fraction(cum[-1])
    x = Fraction(u) * tot
    for i, ci in enumerate(cum):
        lo = Fraction(cum[i - 1]) if i else Fraction(0)
        if lo <= x < Fraction(ci):
            return i
    # position beyond the last boundary cannot happen for u < 1
    raise AssertionError("unreachable")


def choose_unweighted(n, u) -> int:
    x = Fraction(u) * n
    return x.numerator // x.denominator


def spec_choice(n, weights, cum, u, both=False):
    """expected outcome CLASS and index of deterministic_choice(id, population of n, ...) per C03 / C16.
    weights/cum are the float values the function receives (running totals are formed in float arithmetic, as any
    implementation receiving floats must); the interval test itself is exact."""
    import math
    if both:
        return {"outcome": "raise", "exc": "TypeError"}
    if weights is None and cum is None:
        return {"outcome": "return", "index": choose_unweighted(n, u)}
    c = cum
    if c is None:
        c, t = [], 0
        for w in weights:
            t = t + w
            c.append(t)
    if len(c) != n:
        return {"outcome": "raise", "exc": "ValueError"}
    tot = c[-1] + 0.0
    if tot <= 0.0 or not math.isfinite(tot):
        return {"outcome": "raise", "exc": "ValueError"}
    return {"outcome": "return", "index": choose_index_cum([Fraction(x) for x in c], u)}
