"""Spec function `Lex_ref` (DESIGN section 3): the documented token table (src/pyab_experiment/language/README.rst,
'Terminal Tokens', 'Values', 'Comments', notes 1-5) read as a SCANNER.  Written from the documentation, not from
lexer.py.  Used (a) symbolically by rxvc, as marked regular languages, and (b) executably, as the oracle of the
bounded differentials and replays.

Reading of the documentation (judgment calls are marked JC):
* trivia: runs of whitespace; `//` to the end of the line; `/*` up to the FIRST `*/` (C style, may span lines, no
  nesting; JC: an unterminated block comment extends to the end of the text, as in the implementation).
* otherwise the LONGEST match among the token patterns; a token that ends in a word character (all keywords) must
  end at a word boundary -- `order_id`, `index`, `not_active`, `android` are identifiers (C07 names them); ties go to
  the table order (keywords before ID), so `elseif` is the `else\\s*if` token as its documented regex says.
* identifiers are `[a-zA-Z_][a-zA-Z0-9_]*`; numbers are `\\d+` and `\\d+\\.\\d+` (Python's notion of a decimal
  digit, the notion the documented regexes live in) and need no boundary after them (`1and` is `1`, `and`);
  strings run to the next same quote on the same line and denote the characters between the quotes verbatim.
* any other character rejects the text.
"""

# (type, regex, needs word boundary after the match)   -- order = tie-break priority
TOKENS = [
    ("LPAREN", r"\(", False), ("RPAREN", r"\)", False), ("MINUS", r"-", False), ("COMMA", r",", False),
    ("COLON", r":", False), ("LBRACE", r"{", False), ("RBRACE", r"}", False),
    ("KW_EQ", r"==", False), ("KW_GE", r">=", False), ("KW_LE", r"<=", False), ("KW_GT", r">", False), ("KW_LT", r"<", False),
    ("KW_NE", r"!=", False),
    ("KW_NOT_IN", r"not\s+in", True), ("KW_IN", r"in", True), ("KW_NOT", r"not", True),
    ("KW_DEF", r"def", True), ("KW_SALT", r"salt", True), ("KW_SPLITTERS", r"splitters", True), ("KW_IF", r"if", True),
    ("KW_ELIF", r"else\s*if", True), ("KW_ELSE", r"else", True), ("KW_WEIGHTED", r"weighted", True),
    ("KW_RETURN", r"return", True), ("KW_AND", r"and", True), ("KW_OR", r"or", True),
    ("ID", r"[a-zA-Z_][a-zA-Z0-9_]*", False),
    ("NON_NEG_FLOAT", r"\d+\.\d+", False), ("NON_NEG_INTEGER", r"\d+", False),
    ("STRING_LITERAL", r"\"[^\"\n]*\"|'[^'\n]*'", False),
]
TRIVIA = [("WS", r"\s+", False), ("LINE_COMMENT", r"//[^\n]*", False), ("BLOCK_OPEN", r"/\*", False)]
# inside a block comment (C style): everything up to and including the first "*/"


_COMPILED = None


def _compiled():
    """each documented pattern followed by its boundary requirement as a lookahead.  Every pattern of the table has a
    unique or longest preferred match under backtracking (checked symbolically by rxvc.ref_picks), so `match` returns
    the longest admissible candidate."""
    global _COMPILED
    if _COMPILED is None:
        import re
        _COMPILED = [(t, re.compile("(?:%s)%s" % (p, r"(?!\w)" if wb else ""))) for t, p, wb in TOKENS + TRIVIA]
    return _COMPILED


def scan(text, spans=None):
    """executable reference scanner: returns ('ok', [(type, value), ...]) or ('reject', index); when `spans` is a list the
    (start, end) offsets of the tokens are appended to it"""
    toks = []
    i, n = 0, len(text)
    comp = _compiled()
    while i < n:
        best = None
        for t, cre in comp:
            m = cre.match(text, i)
            if m is not None and m.end() > i and (best is None or m.end() > best[1]):
                best = (t, m.end())
        if best is None:
            return ("reject", i)
        t, j = best
        lex = text[i:j]
        if t == "WS" or t == "LINE_COMMENT":
            pass
        elif t == "BLOCK_OPEN":
            k = text.find("*/", j)
            j = n if k < 0 else k + 2
        elif t == "NON_NEG_INTEGER":
            toks.append((t, int(lex)))
        elif t == "NON_NEG_FLOAT":
            toks.append((t, float(lex)))
        elif t == "STRING_LITERAL":
            toks.append((t, lex[1:-1]))
        else:
            toks.append((t, lex))
        if spans is not None and t not in ("WS", "LINE_COMMENT", "BLOCK_OPEN"):
            spans.append((i, j))
        i = j
    return ("ok", toks)
