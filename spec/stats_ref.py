"""Textbook binomial confidence intervals (C18), written from the literature, independent of the product.
Given the z-score z:  Wald: p +- z*sqrt(p(1-p)/n);  Agresti-Coull: n' = n+z^2, p' = (p*n + z^2/2)/n', p' +- z*sqrt(p'(1-p')/n')."""
import math


def z_closed_form(alpha):
    return math.sqrt(math.pi / 8) * abs(math.log(alpha / (1 - alpha)))


def wald(n, p, z):
    h = z * math.sqrt(p * (1 - p) / n)
    return p - h, p + h


def agresti_coull(n, p, z):
    n2 = n + z * z
    p2 = (p * n + z * z / 2) / n2
    h = z * math.sqrt(p2 * (1 - p2) / n2)
    return p2 - h, p2 + h


def close(a, b, rel=1e-9, abs_=1e-12):
    return abs(a - b) <= max(abs_, rel * max(abs(a), abs(b)))
