"""ASSUMED contract of pydantic v1 field validation (DESIGN 2.7), as an executable model over abstract value kinds.
Inputs are the REAL annotations and Config read from syntax_tree.py with `ast` on every run.  The model's predictions
are cross-checked against the real classes on a value pool by the native helper on every run (bounded).

validate(Union[m1..mk], v):
  smart_union: first an exact-type pass (type(v) is mi); then, as without it, the first member whose validator
  accepts v, left to right.
member validators (v1.10): float <- float | int (float(v): OverflowError above 1.8e308) | bool | str parseable by
  float(); int <- int | integral float | str parseable by int(); str <- str | int | float (str(v));
  tuple <- tuple | list | set ... (shallow tuple(v)); Model <- instance of the model, a dict, or ANYTHING dict() accepts (a list of
  pairs!) whose keys fit the model's fields.
  NonNegativeFloat / NonNegativeInt: float / int plus `>= 0`.
"""
import ast

KINDS = ["int", "int>2^53", "int>1e308", "float", "str-numeric", "str-plain", "list", "list-of-pairs", "Identifier"]
EXEMPLARS = {   # concrete witnesses per kind (used for replay and the native cross-check)
    "int": [18, 0, -5], "int>2^53": [9007199254740993], "int>1e308": [10 ** 309], "float": [1.5, -0.25, 0.1],
    "str-numeric": ["02134", "1e5", "inf", " 12 ", "nan", "1_0"], "str-plain": ["abc", "", "it's", "C:\\temp"],
    "list": [[1, 2], ["a"], [1, [2, 3]]], "Identifier": ["<Identifier x>"],
    # a tuple of pairs is dict()-able: BaseModel.validate(v) falls back to cls(**dict(v)) for anything that is not a dict
    "list-of-pairs": [[["name", "bob"], ["role", "admin"]], [["name", "x"]], [["role", 1], ["name", "uid"]]],
}


ALIASES = {}


def read_models(tree):
    """class -> {"fields": {name: [member type names]}, "smart_union": bool}.  Module-level type aliases (`Term = Union[...]`) are
    resolved, so naming an annotation changes nothing."""
    out = {}
    ALIASES.clear()
    for n in tree.body:
        if isinstance(n, ast.Assign) and len(n.targets) == 1 and isinstance(n.targets[0], ast.Name) and isinstance(n.value, (ast.Subscript, ast.BinOp, ast.Name, ast.Attribute)):
            ALIASES[n.targets[0].id] = n.value
        elif isinstance(n, ast.AnnAssign) and isinstance(n.target, ast.Name) and n.value is not None and isinstance(n.value, (ast.Subscript, ast.BinOp, ast.Name, ast.Attribute)):
            ALIASES[n.target.id] = n.value
    for n in tree.body:
        if not isinstance(n, ast.ClassDef) or "BaseModel" not in [ast.unparse(b) for b in n.bases]:
            continue
        fields, smart = {}, False
        for st in n.body:
            if isinstance(st, ast.AnnAssign) and isinstance(st.target, ast.Name):
                fields[st.target.id] = members(st.annotation)
            if isinstance(st, ast.ClassDef) and st.name == "Config":
                for s2 in st.body:
                    if isinstance(s2, ast.Assign) and any(isinstance(t, ast.Name) and t.id == "smart_union" for t in s2.targets):
                        smart = isinstance(s2.value, ast.Constant) and s2.value.value is True
        out[n.name] = {"fields": fields, "smart_union": smart}
    return out


def members(ann, depth=0):
    if isinstance(ann, ast.Name) and ann.id in ALIASES and depth < 8:
        return members(ALIASES[ann.id], depth + 1)
    if isinstance(ann, ast.Subscript) and ast.unparse(ann.value) in ("Optional", "typing.Optional"):
        return members(ann.slice, depth + 1) + ["None"]
    if isinstance(ann, ast.Subscript) and ast.unparse(ann.value) in ("Union", "typing.Union"):
        elts = ann.slice.elts if isinstance(ann.slice, ast.Tuple) else [ann.slice]
        out = []
        for e in elts:
            out += members(e)
        return out
    if isinstance(ann, ast.BinOp) and isinstance(ann.op, ast.BitOr):
        return members(ann.left) + members(ann.right)
    if isinstance(ann, ast.Constant) and isinstance(ann.value, str):
        return [ann.value]
    return [ast.unparse(ann)]


def member_accepts(m, kind):
    """-> None (rejects) | ("same",) | ("coerced", new_type, note) | ("error", exc)"""
    if m in ("float", "NonNegativeFloat"):
        if kind == "float":
            return ("same",)
        if kind == "int":
            return ("coerced", "float", "int becomes float")
        if kind == "int>2^53":
            return ("coerced", "float", "int becomes the nearest double (value changes)")
        if kind == "int>1e308":
            return ("error", "OverflowError")
        if kind == "str-numeric":
            return ("coerced", "float", "numeric-looking string becomes a float")
        return None
    if m in ("int", "NonNegativeInt"):
        if kind.startswith("int"):
            return ("same",)
        if kind == "str-numeric":
            return ("coerced", "int", "digit string becomes an int (when int() accepts it)")
        return None
    if m == "str":
        if kind.startswith("str"):
            return ("same",)
        if kind in ("int", "int>2^53", "int>1e308", "float"):
            return ("coerced", "str", "number becomes its str()")
        return None
    if m == "tuple":
        if kind in ("list", "list-of-pairs"):
            return ("container", "tuple", "shallow tuple(v): items unchanged")
        return None
    if m.startswith("list"):
        if kind in ("list", "list-of-pairs"):
            return ("same",)
        return None
    if m == "Identifier":
        if kind == "list-of-pairs":
            return ("coerced", "Identifier", "dict(v) has a 'name' key: the tuple of pairs becomes Identifier(name=...)")
        return ("same",) if kind == "Identifier" else None
    if m == "None":
        return None
    return None


EXACT = {"int": "int", "int>2^53": "int", "int>1e308": "int", "float": "float", "str-numeric": "str", "str-plain": "str", "Identifier": "Identifier"}


def validate(mem, smart, kind):
    if smart and kind in EXACT and EXACT[kind] in mem:
        return ("same",)
    for m in mem:
        r = member_accepts(m, kind)
        if r is not None:
            return r
    return ("error", "ValidationError")
