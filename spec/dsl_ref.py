"""Reference semantics of the DSL, written from the documentation and the property statements (C02, C03, C05, C09,
C12), independent of the product:  G_ref recogniser / AST builder over Lex_ref tokens, `Route` (nested
if / else-if / else with the usual meaning of the operators), `Scheme` (published bucketing), a renderer from
spec ASTs to source text and program generators for the bounded differentials.   Pure Python, both interpreters.

Spec AST (JSON-able):
  experiment = {"id": str, "salt": str|None, "splitters": [str]|None, "body": cond}
  cond   = ["return", [[value, weight], ...]]  |  ["if", pred, cond, tail]
  tail   = None | ["elif", pred, cond, tail] | ["else", cond]
  pred   = ["cmp", op, term, term] | ["and", pred, pred] | ["or", pred, pred] | ["not", pred]
  term   = ["id", name] | ["lit", value] | ["tuple", [term, ...]]
  value  = int | float | str          op in == != > < >= <= in not_in
"""
import random
from fractions import Fraction

from . import lex_ref, scheme

OPS = {"KW_EQ": "==", "KW_NE": "!=", "KW_GT": ">", "KW_LT": "<", "KW_GE": ">=", "KW_LE": "<=", "KW_IN": "in", "KW_NOT_IN": "not_in"}


class Reject(Exception):
    pass


class Unroutable(Exception):
    pass


# ------------------------------------------------------------------------------------------------ parser (G_ref)
class _P:
    def __init__(self, toks):
        self.t, self.i = toks, 0

    def peek(self, k=0):
        return self.t[self.i + k][0] if self.i + k < len(self.t) else "$end"

    def eat(self, typ):
        if self.peek() != typ:
            raise Reject("expected %s at token %d, got %s" % (typ, self.i, self.peek()))
        v = self.t[self.i][1]
        self.i += 1
        return v

    def experiment(self):
        self.eat("KW_DEF")
        name = self.eat("ID")
        self.eat("LBRACE")
        salt = None
        if self.peek() == "KW_SALT":
            self.eat("KW_SALT")
            self.eat("COLON")
            salt = self.eat("STRING_LITERAL")
        spl = None
        if self.peek() == "KW_SPLITTERS":
            self.eat("KW_SPLITTERS")
            self.eat("COLON")
            spl = [self.eat("ID")]
            while self.peek() == "COMMA":
                self.eat("COMMA")
                spl.append(self.eat("ID"))
        body = self.conditional()
        self.eat("RBRACE")
        if self.peek() != "$end":
            raise Reject("text after the definition")
        return {"id": name, "salt": salt, "splitters": spl, "body": body}

    def conditional(self):
        if self.peek() == "KW_RETURN":
            self.eat("KW_RETURN")
            groups = [self.group()]
            while self.peek() == "COMMA":
                self.eat("COMMA")
                groups.append(self.group())
            return ["return", groups]
        self.eat("KW_IF")
        p = self.predicate()
        self.eat("LBRACE")
        c = self.conditional()
        self.eat("RBRACE")
        return ["if", p, c, self.tail()]

    def tail(self):
        if self.peek() == "KW_ELSE":
            self.eat("KW_ELSE")
            self.eat("LBRACE")
            c = self.conditional()
            self.eat("RBRACE")
            return ["else", c]
        if self.peek() == "KW_ELIF":
            self.eat("KW_ELIF")
            p = self.predicate()
            self.eat("LBRACE")
            c = self.conditional()
            self.eat("RBRACE")
            return ["elif", p, c, self.tail()]
        return None

    def group(self):
        v = self.literal()
        self.eat("KW_WEIGHTED")
        if self.peek() not in ("NON_NEG_INTEGER", "NON_NEG_FLOAT"):
            raise Reject("weight expected")
        w = self.eat(self.peek())
        return [v, w]

    def literal(self):
        if self.peek() == "MINUS":
            self.eat("MINUS")
            if self.peek() not in ("NON_NEG_INTEGER", "NON_NEG_FLOAT"):
                raise Reject("number expected after -")
            return -self.eat(self.peek())
        if self.peek() in ("NON_NEG_INTEGER", "NON_NEG_FLOAT", "STRING_LITERAL"):
            return self.eat(self.peek())
        raise Reject("literal expected, got %s" % self.peek())

    # precedence not > and > or, left associative
    def predicate(self):
        p = self.conj()
        while self.peek() == "KW_OR":
            self.eat("KW_OR")
            p = ["or", p, self.conj()]
        return p

    def conj(self):
        p = self.neg()
        while self.peek() == "KW_AND":
            self.eat("KW_AND")
            p = ["and", p, self.neg()]
        return p

    def neg(self):
        if self.peek() == "KW_NOT":
            self.eat("KW_NOT")
            return ["not", self.neg()]
        return self.atom()

    def atom(self):
        save = self.i
        try:
            l = self.term()
            if self.peek() not in OPS:
                raise Reject("comparison operator expected")
            op = OPS[self.peek()]
            self.i += 1
            r = self.term()
            return ["cmp", op, l, r]
        except Reject:
            self.i = save
        self.eat("LPAREN")
        p = self.predicate()
        self.eat("RPAREN")
        return p

    def term(self):
        if self.peek() == "ID":
            return ["id", self.eat("ID")]
        if self.peek() == "LPAREN":
            self.eat("LPAREN")
            items = [self.term()]
            while self.peek() == "COMMA":
                self.eat("COMMA")
                items.append(self.term())
            self.eat("RPAREN")
            return ["tuple", items]
        return ["lit", self.literal()]


def parse_tokens(toks):
    return _P(toks).experiment()


def parse_text(text):
    """('ok', ast) | ('reject', why)"""
    st, toks = lex_ref.scan(text)
    if st != "ok":
        return ("reject", "lexical error at %s" % toks)
    try:
        return ("ok", parse_tokens(toks))
    except Reject as e:
        return ("reject", str(e))


# ------------------------------------------------------------------------------------------------ Route + Scheme
def term_value(t, env):
    if t[0] == "id":
        if t[1] not in env:
            raise TypeError("missing field %s" % t[1])
        return env[t[1]]
    if t[0] == "lit":
        return t[1]
    return tuple(term_value(x, env) for x in t[1])


def pred_value(p, env):
    if p[0] == "cmp":
        a, b = term_value(p[2], env), term_value(p[3], env)
        op = p[1]
        if op == "==":
            return a == b
        if op == "!=":
            return a != b
        if op == ">":
            return a > b
        if op == "<":
            return a < b
        if op == ">=":
            return a >= b
        if op == "<=":
            return a <= b
        if op == "in":
            return a in b
        if op == "not_in":
            return a not in b
        raise ValueError(op)
    if p[0] == "and":
        return bool(pred_value(p[1], env)) and bool(pred_value(p[2], env))
    if p[0] == "or":
        return bool(pred_value(p[1], env)) or bool(pred_value(p[2], env))
    if p[0] == "not":
        return not pred_value(p[1], env)
    raise ValueError(p[0])


def route(c, env):
    """the return statement (list of groups) selected by nested if / else if / else; Unroutable if none"""
    if c[0] == "return":
        return c[1]
    _, p, tb, tail = c
    if pred_value(p, env):
        return route(tb, env)
    while tail is not None:
        if tail[0] == "else":
            return route(tail[1], env)
        _, p2, tb2, tail2 = tail
        if pred_value(p2, env):
            return route(tb2, env)
        tail = tail2
    raise Unroutable()


def fields(exp):
    """(splitters, identifiers used in conditions)"""
    ids = []

    def t(x):
        if x[0] == "id":
            ids.append(x[1])
        elif x[0] == "tuple":
            for y in x[1]:
                t(y)

    def p(x):
        if x[0] == "cmp":
            t(x[2])
            t(x[3])
        elif x[0] == "not":
            p(x[1])
        else:
            p(x[1])
            p(x[2])

    def c(x):
        if x[0] == "return":
            return
        p(x[1])
        c(x[2])
        tl = x[3]
        while tl is not None:
            if tl[0] == "else":
                c(tl[1])
                break
            p(tl[1])
            c(tl[2])
            tl = tl[3]
    c(exp["body"])
    return list(exp["splitters"] or []), ids


def evaluate(exp, env):
    """('group', value) | ('raise', exc-class-name).  Requires at least one splitter (C01's domain)."""
    spl, ids = fields(exp)
    for f in spl + ids:
        if f not in env:
            return ("raise", "TypeError")
    try:
        groups = route(exp["body"], env)
    except Unroutable:
        return ("raise", "ExperimentConditionalFailedError")
    except TypeError:
        return ("raise", "TypeError")
    if not spl:
        return ("random", [g[0] for g in groups])
    weights = [g[1] for g in groups]
    if sum(Fraction(w) for w in weights) <= 0:
        return ("raise", "ValueError")
    key = scheme.key_of(exp["salt"], spl, env)
    u = Fraction(scheme.pos_k(key), 2 ** 32)
    return ("group", groups[scheme.choose_index(weights, u)][0])


# ------------------------------------------------------------------------------------------------ rendering
def q(s):
    """a DSL string literal denoting s (the DSL has no escapes: pick a quote that does not occur)"""
    if '"' not in s and "\n" not in s:
        return '"%s"' % s
    if "'" not in s and "\n" not in s:
        return "'%s'" % s
    raise ValueError("string %r is not expressible in the DSL" % s)


def num(v):
    if isinstance(v, float):
        s = repr(abs(v))
        if "e" in s or "inf" in s or "nan" in s:
            # decimal notation only
            s = "%.20f" % abs(v)
            s = s.rstrip("0")
            if s.endswith("."):
                s += "0"
        if "." not in s:
            s += ".0"
    else:
        s = str(abs(v))
    return ("-" if v < 0 else "") + s


def lit(v):
    return q(v) if isinstance(v, str) else num(v)


def r_term(t):
    if t[0] == "id":
        return t[1]
    if t[0] == "lit":
        return lit(t[1])
    return "(" + ", ".join(r_term(x) for x in t[1]) + ")"


_PREC = {"or": 1, "and": 2, "not": 3, "cmp": 4}
_OPTXT = {"not_in": "not in"}


def r_pred(p, parent=0, redundant=False, side="l"):
    k = p[0]
    if k == "cmp":
        s = "%s %s %s" % (r_term(p[2]), _OPTXT.get(p[1], p[1]), r_term(p[3]))
    elif k == "not":
        s = "not " + r_pred(p[1], 3, redundant)
    else:
        # left-associative: the right operand needs parentheses at equal precedence
        s = "%s %s %s" % (r_pred(p[1], _PREC[k], redundant, "l"), k, r_pred(p[2], _PREC[k] + 1, redundant, "r"))
    if _PREC[k] < parent or (redundant and k != "cmp") or (redundant and k == "cmp" and p[2][0] != "tuple"):
        return "(" + s + ")"
    return s


def r_cond(c, ind=1, redundant=False):
    pad = "  " * ind
    if c[0] == "return":
        return pad + "return " + ", ".join("%s weighted %s" % (lit(v), num(w)) for v, w in c[1]) + "\n"
    s = pad + "if %s {\n%s%s}" % (r_pred(c[1], 0, redundant), r_cond(c[2], ind + 1, redundant), pad)
    tl = c[3]
    while tl is not None:
        if tl[0] == "else":
            s += " else {\n%s%s}" % (r_cond(tl[1], ind + 1, redundant), pad)
            break
        s += " else if %s {\n%s%s}" % (r_pred(tl[1], 0, redundant), r_cond(tl[2], ind + 1, redundant), pad)
        tl = tl[3]
    return s + "\n"


def render(exp, redundant=False):
    s = "def %s {\n" % exp["id"]
    if exp["salt"] is not None:
        s += "  salt: %s\n" % q(exp["salt"])
    if exp["splitters"]:
        s += "  splitters: %s\n" % ", ".join(exp["splitters"])
    return s + r_cond(exp["body"], 1, redundant) + "}\n"


# ------------------------------------------------------------------------------------------------ generators
IDENTS = ["uid", "age", "country", "x", "Y", "_z", "order_id", "index", "not_active", "android", "iffy", "elsewhere", "weighted_sum",
          "returned", "definition", "salty", "splitters2", "a1", "field_1", "inn", "oracle"]
STRINGS = ["A", "B", "control", "variant_a", "02134", "inf", "1e5", "", "it's", "C:\\temp", "caf\u00e9", "a b", "nan", "None", "x,y", "{}", "%s", "(", "#", "\\", "\\n", "a\\", "True", "\U0001F680", "x\U0001D11E", " lead", "trail ", "\u3000", "checkout_button_colour_experiment_2024_q1", "checkout_button_colour_experiment_2024_q2", "v1\rimport builtins; builtins.C13_INJECTED = 1", "a\x0cb", "/*", "*/", "//"]
INTS = [0, 1, 2, 3, 18, 21, 100, 9007199254740993, 10 ** 30, -1, -5]
FLOATS = [0.5, 1.5, 3.4, 0.1, 2.0, -0.25, 1e-9, 1e9]
WEIGHTS = [1, 2, 3, 0, 0.5, 3.4, 5, 1e-9, 1e9, 0.1, 10, 1234567, 7654321, 0.1234567]


def gen_value(rnd, kinds="isf"):
    k = rnd.choice(kinds)
    if k == "i":
        return rnd.choice(INTS)
    if k == "f":
        return rnd.choice(FLOATS)
    return rnd.choice(STRINGS)


def gen_term(rnd, ids, depth=0, allow_tuple=True):
    r = rnd.random()
    if r < 0.4:
        return ["id", rnd.choice(ids)]
    if r < 0.8 or not allow_tuple or depth > 1:
        return ["lit", gen_value(rnd)]
    return ["tuple", [gen_term(rnd, ids, depth + 1) for _ in range(rnd.randint(1, 3))]]


def gen_cmp(rnd, ids):
    op = rnd.choice(list(OPS.values()))
    l = ["id", rnd.choice(ids)] if rnd.random() < 0.8 else ["lit", gen_value(rnd)]
    if op in ("in", "not_in"):
        kind = rnd.choice("is")
        r = ["tuple", [["lit", gen_value(rnd, kind)] if rnd.random() < 0.85 else gen_term(rnd, ids, 1) for _ in range(rnd.randint(1, 4))]]
    elif op in ("==", "!="):
        r = gen_term(rnd, ids, 0, allow_tuple=rnd.random() < 0.2)
    else:
        r = ["lit", gen_value(rnd, "if")] if rnd.random() < 0.8 else ["id", rnd.choice(ids)]
    return ["cmp", op, l, r]


def gen_pred(rnd, ids, depth):
    if depth <= 0 or rnd.random() < 0.35:
        return gen_cmp(rnd, ids)
    k = rnd.choice(["and", "or", "not", "and", "or"])
    if k == "not":
        return ["not", gen_pred(rnd, ids, depth - 1)]
    return [k, gen_pred(rnd, ids, depth - 1), gen_pred(rnd, ids, depth - 1)]


def gen_groups(rnd, label):
    n = rnd.randint(1, 4)
    kinds = rnd.choice(["s", "s", "s", "i", "f", "isf"])
    groups = []
    for i in range(n):
        v = gen_value(rnd, kinds)
        if isinstance(v, str) and kinds == "s" and rnd.random() < 0.7:
            v = "%s%d" % (label, i)          # one distinct label per return statement
        groups.append([v, rnd.choice(WEIGHTS)])
    if all(g[1] == 0 for g in groups):
        groups[rnd.randrange(n)][1] = 1
    return ["return", groups]


def gen_cond(rnd, ids, depth, counter):
    if depth <= 0 or rnd.random() < 0.25:
        counter[0] += 1
        return gen_groups(rnd, "r%d_" % counter[0])
    p = gen_pred(rnd, ids, rnd.randint(0, 2))
    tb = gen_cond(rnd, ids, depth - 1, counter)
    tail = None
    r = rnd.random()
    if r < 0.6:
        tail = ["else", gen_cond(rnd, ids, depth - 1, counter)]
    for _ in range(rnd.choice([0, 0, 1, 1, 2, 3])):
        tail = ["elif", gen_pred(rnd, ids, rnd.randint(0, 2)), gen_cond(rnd, ids, depth - 1, counter), tail]
    return ["if", p, tb, tail]


def gen_experiment(rnd, share_fields=True):
    nid = rnd.randint(1, 4)
    ids = rnd.sample(IDENTS, nid)
    nspl = rnd.randint(1, 3)
    spl = rnd.sample(IDENTS, nspl) if not share_fields or rnd.random() < 0.5 else rnd.sample(ids + rnd.sample(IDENTS, 2), min(nspl, len(ids)))
    if rnd.random() < 0.15:
        spl = spl + [spl[0]]        # a splitter declared twice
    salt = None if rnd.random() < 0.4 else rnd.choice(STRINGS + ["exp_v1", "s" * 40])
    name = rnd.choice(["exp", "my_experiment", "E1", "_t", "pricing_v2", "order_test", "index_exp"])
    return {"id": name, "salt": salt, "splitters": spl, "body": gen_cond(rnd, ids, rnd.randint(0, 3), [0])}


def literals_near(exp):
    """values equal to / minimally different from every literal, per identifier-agnostic pool"""
    vals = set()

    def t(x):
        if x[0] == "lit":
            v = x[1]
            vals.add(("v", type(v).__name__, repr(v)))
        elif x[0] == "tuple":
            for y in x[1]:
                t(y)

    def p(x):
        if x[0] == "cmp":
            t(x[2])
            t(x[3])
        elif x[0] == "not":
            p(x[1])
        else:
            p(x[1])
            p(x[2])

    def c(x):
        if x[0] == "return":
            return
        p(x[1])
        c(x[2])
        tl = x[3]
        while tl is not None:
            if tl[0] == "else":
                c(tl[1])
                break
            p(tl[1])
            c(tl[2])
            tl = tl[3]
    c(exp["body"])
    out = []
    for _, tn, rp in sorted(vals):
        v = eval(rp)   # noqa: S307 - repr of int/float/str literals generated above
        out.append(v)
        if isinstance(v, bool):
            continue
        if isinstance(v, int):
            out += [v - 1, v + 1, float(v), v + 0.5, v - 0.5] if abs(v) < 2 ** 53 else [v - 1, v + 1]
        elif isinstance(v, float):
            out += [v - 0.5, v + 0.5]
        else:
            out += [v + "x", v[:-1] if v else "y"]
            try:
                out.append(float(v))
            except ValueError:
                pass
    return out


def cover_envs(rnd, exp, cap=160):
    """a covering design for hand-written programs: every field takes every value near every literal at least once (the other
    fields drawn at random), so that each branch a literal guards is visited in every run"""
    spl, ids = fields(exp)
    near = literals_near(exp)
    fs = sorted(set(spl) | set(ids))
    envs = []
    for f in sorted(set(ids)):
        for v in near:
            env = {g: (rnd.choice(near) if near and rnd.random() < 0.5 else gen_value(rnd)) for g in fs}
            env[f] = v
            envs.append(env)
    if len(envs) > cap:
        envs = rnd.sample(envs, cap)
    return envs


def gen_envs(rnd, exp, n=6):
    spl, ids = fields(exp)
    near = literals_near(exp)
    envs = []
    for _ in range(n):
        env = {}
        for f in set(spl) | set(ids):
            r = rnd.random()
            if near and r < 0.7:
                env[f] = rnd.choice(near)
            else:
                env[f] = gen_value(rnd)
        envs.append(env)
    return envs
