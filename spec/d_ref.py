"""Spec function `D` (DESIGN section 3): DSL construct -> the Python code it must mean, given as CANONICAL PYTHON SOURCE
(the parse oracle compares ASTs, so layout and redundant parentheses are irrelevant).  Written from the property
statements C02 / C03 / C05 / C09 / C12 / C14, not from python_generator.py.
"""
CMP = {"EQ": "==", "NE": "!=", "GT": ">", "LT": "<", "GE": ">=", "LE": "<=", "IN": "in", "NOT_IN": "not in"}
BOOL = {"AND": "and", "OR": "or", "NOT": "not"}

TOPLINE = ("from functools import partial\n"
           "from pyab_experiment.codegen.python.custom_exceptions import ExperimentConditionalFailedError\n"
           "from pyab_experiment.binning.binning import deterministic_choice\n")
HELPER = "choose_experiment_variant"
RAISE = "raise ExperimentConditionalFailedError()"


def term(v):
    """identifier -> Name; literal -> Constant of the same value AND type; tuple (at any depth) -> Tuple"""
    from pyvc.tmpl import IdentObj
    if isinstance(v, IdentObj):
        return v.name
    if isinstance(v, (tuple, list)):
        return "(" + "".join(term(x) + ", " for x in v) + ")"
    if isinstance(v, (str, int, float)) and not isinstance(v, bool):
        return repr(v)
    raise ValueError("not a DSL term value: %r" % (v,))


def compare(op, l, r):
    return "%s %s %s" % (l, CMP[op], r)


def boolean(op, l, r=None):
    if op == "NOT":
        return "not (%s)" % l
    return "(%s) %s (%s)" % (l, BOOL[op], r)


def ind(n):
    return "\t" * n


def group_return(depth, groups):
    """groups: [(definition, weight)] in DECLARATION order; population and weights position-aligned"""
    return "%sreturn partial(deterministic_choice, population=[%s], weights=[%s])\n" % (
        ind(depth), ", ".join(repr(d) for d, _ in groups), ", ".join(repr(float(w)) for _, w in groups))


def key_expr(salt, splitters):
    """salt first, then str() of every splitter value in alphabetical order of (distinct) field name"""
    if not splitters:
        return "None"
    return "%s + ''.join(map(str, [%s]))" % (repr(salt or ""), ", ".join(sorted(set(splitters))))


def module(exp_id, splitters, cond_ids, key, body_block, depth_of_body, exposed):
    """both layouts; parameters = distinct splitters U condition identifiers (order irrelevant: passed by keyword)"""
    params = sorted(set(splitters or []) | set(cond_ids))
    sig = ", ".join(params + ["**kwargs"])
    cids = sorted(set(cond_ids))
    call = "%s(%s)(%s)" % (HELPER, ", ".join("%s=%s" % (c, c) for c in cids), key)
    if exposed:
        return (TOPLINE + "def %s(%s):\n\treturn %s\n" % (exp_id, sig, call) +
                "def %s(%s):\n%s\t%s\n" % (HELPER, ", ".join(cids), body_block, RAISE))
    return (TOPLINE + "def %s(%s):\n" % (exp_id, sig) +
            "\tdef %s(%s):\n%s\t\t%s\n" % (HELPER, ", ".join(cids), body_block, RAISE) +
            "\treturn %s\n" % call)


# ------------------------------------------------------------------------------------------------------------------
# D composed over a whole spec AST (spec/dsl_ref.py form): used by the bounded translation-validation stand-in and
# by replays (real generator output vs D(ast), compared as Python ASTs)

def spec_term(t):
    if t[0] == "id":
        return t[1]
    if t[0] == "lit":
        return repr(t[1])
    return "(" + "".join(spec_term(x) + ", " for x in t[1]) + ")"


_OP = {"==": "EQ", "!=": "NE", ">": "GT", "<": "LT", ">=": "GE", "<=": "LE", "in": "IN", "not_in": "NOT_IN"}


def spec_pred(p):
    if p[0] == "cmp":
        return "(" + compare(_OP[p[1]], spec_term(p[2]), spec_term(p[3])) + ")"
    if p[0] == "not":
        return "(" + boolean("NOT", spec_pred(p[1])) + ")"
    return "(" + boolean(p[0].upper(), spec_pred(p[1]), spec_pred(p[2])) + ")"


def spec_cond(c, depth):
    if c[0] == "return":
        return group_return(depth, [(v, w) for v, w in c[1]])
    out = ind(depth) + "if %s:\n" % spec_pred(c[1]) + spec_cond(c[2], depth + 1)
    tl = c[3]
    while tl is not None:
        if tl[0] == "else":
            out += ind(depth) + "else:\n" + spec_cond(tl[1], depth + 1)
            break
        out += ind(depth) + "elif %s:\n" % spec_pred(tl[1]) + spec_cond(tl[2], depth + 1)
        tl = tl[3]
    return out


def full_module(exp, exposed):
    from . import dsl_ref
    spl, ids = dsl_ref.fields(exp)
    body = spec_cond(exp["body"], 1 if exposed else 2)
    return module(exp["id"], spl, ids, key_expr(exp["salt"], spl), body, None, exposed)
