"""Spec `G_ref`: the documented grammar (language/README.rst 'Formal Grammar', 'Conditional Logic', 'Supported
Operators', 'Return Statements') as productions + precedence, and its ATTRIBUTE GRAMMAR: what AST each production
denotes (`wf` images).  Written from the documentation and the property statements (C02: not > and > or, left
associative, parentheses override; C05: literals keep value and type), not from grammar.py.

Attribute terms:  ("attr", name) the value of a right-hand-side symbol (sly naming: sym, or sym0/sym1 when repeated);
("node", Class, {field: term}); ("enum", Class, member); ("list", [terms]); ("cat", list-term, list-term);
("neg", term); None.
"""

A = lambda n: ("attr", n)       # noqa: E731
N = lambda c, **f: ("node", c, f)   # noqa: E731
E = lambda c, m: ("enum", c, m)     # noqa: E731

PRECEDENCE = {"KW_OR": ("left", 1), "KW_AND": ("left", 2), "KW_NOT": ("left", 3)}   # not > and > or, left associative
START = "header"

# (lhs, rhs) -> attribute term
G_REF = {
    ("header", ("header_id", "LBRACE", "opt_header_salt", "opt_splitter", "conditional", "RBRACE")):
        N("ExperimentAST", id=A("header_id"), splitting_fields=A("opt_splitter"), salt=A("opt_header_salt"), conditions=A("conditional")),
    ("empty", ()): None,
    ("header_id", ("KW_DEF", "ID")): A("ID"),
    ("opt_header_salt", ("empty",)): None,
    ("opt_header_salt", ("KW_SALT", "COLON", "STRING_LITERAL")): A("STRING_LITERAL"),
    ("opt_splitter", ("empty",)): None,
    ("opt_splitter", ("KW_SPLITTERS", "COLON", "fields")): A("fields"),
    ("fields", ("ID", "COMMA", "fields")): ("cat", ("list", [A("ID")]), A("fields")),
    ("fields", ("ID",)): ("list", [A("ID")]),
    ("conditional", ("KW_IF", "predicate", "LBRACE", "conditional", "RBRACE", "subconditional")):
        N("ExperimentConditional", conditional_type=E("ConditionalType", "IF"), predicate=A("predicate"), true_branch=A("conditional"), false_branch=A("subconditional")),
    ("conditional", ("return_expr",)): A("return_expr"),
    ("subconditional", ("KW_ELIF", "predicate", "LBRACE", "conditional", "RBRACE", "subconditional")):
        N("ExperimentConditional", conditional_type=E("ConditionalType", "ELIF"), predicate=A("predicate"), true_branch=A("conditional"), false_branch=A("subconditional")),
    ("subconditional", ("KW_ELSE", "LBRACE", "conditional", "RBRACE")):
        N("ExperimentConditional", conditional_type=E("ConditionalType", "ELSE"), predicate=None, true_branch=A("conditional"), false_branch=None),
    ("subconditional", ("empty",)): None,
    ("predicate", ("term", "logical_op", "term")): N("TerminalPredicate", left_term=A("term0"), logical_operator=A("logical_op"), right_term=A("term1")),
    ("predicate", ("LPAREN", "predicate", "RPAREN")): A("predicate"),
    ("predicate", ("predicate", "KW_AND", "predicate")):
        N("RecursivePredicate", left_predicate=A("predicate0"), boolean_operator=E("BooleanOperatorEnum", "AND"), right_predicate=A("predicate1")),
    ("predicate", ("predicate", "KW_OR", "predicate")):
        N("RecursivePredicate", left_predicate=A("predicate0"), boolean_operator=E("BooleanOperatorEnum", "OR"), right_predicate=A("predicate1")),
    ("predicate", ("KW_NOT", "predicate")):
        N("RecursivePredicate", left_predicate=A("predicate"), boolean_operator=E("BooleanOperatorEnum", "NOT"), right_predicate=None),
    ("term", ("literal",)): A("literal"),
    ("term", ("ID",)): N("Identifier", name=A("ID")),
    ("term", ("tuple",)): A("tuple"),
    ("tuple", ("LPAREN", "term", "op_term")): ("cat", ("list", [A("term")]), A("op_term")),
    ("op_term", ("COMMA", "term", "op_term")): ("cat", ("list", [A("term")]), A("op_term")),
    ("op_term", ("RPAREN",)): ("list", []),
    ("logical_op", ("KW_LT",)): E("LogicalOperatorEnum", "LT"),
    ("logical_op", ("KW_GT",)): E("LogicalOperatorEnum", "GT"),
    ("logical_op", ("KW_GE",)): E("LogicalOperatorEnum", "GE"),
    ("logical_op", ("KW_LE",)): E("LogicalOperatorEnum", "LE"),
    ("logical_op", ("KW_IN",)): E("LogicalOperatorEnum", "IN"),
    ("logical_op", ("KW_NE",)): E("LogicalOperatorEnum", "NE"),
    ("logical_op", ("KW_EQ",)): E("LogicalOperatorEnum", "EQ"),
    ("logical_op", ("KW_NOT_IN",)): E("LogicalOperatorEnum", "NOT_IN"),
    ("return_expr", ("KW_RETURN", "return_statement")): A("return_statement"),
    ("return_statement", ("literal", "KW_WEIGHTED", "weight")):
        ("list", [N("ExperimentGroup", group_definition=A("literal"), group_weight=A("weight"))]),
    ("return_statement", ("literal", "KW_WEIGHTED", "weight", "COMMA", "return_statement")):
        ("cat", ("list", [N("ExperimentGroup", group_definition=A("literal"), group_weight=A("weight"))]), A("return_statement")),
    ("weight", ("NON_NEG_INTEGER",)): A("NON_NEG_INTEGER"),
    ("weight", ("NON_NEG_FLOAT",)): A("NON_NEG_FLOAT"),
    ("literal", ("MINUS", "NON_NEG_INTEGER")): ("neg", A("NON_NEG_INTEGER")),
    ("literal", ("MINUS", "NON_NEG_FLOAT")): ("neg", A("NON_NEG_FLOAT")),
    ("literal", ("NON_NEG_INTEGER",)): A("NON_NEG_INTEGER"),
    ("literal", ("NON_NEG_FLOAT",)): A("NON_NEG_FLOAT"),
    ("literal", ("STRING_LITERAL",)): A("STRING_LITERAL"),
}
