"""Evaluate the seeded property-breaking changes under /verif/seeded against the checks.
For each seed: demo on the unchanged tree (must pass), apply the patch to /repo, demo (must fail), the repository's own
tests (must pass), the property's check (should exit 1 with a VIOLATION line), then `git checkout -- .`.
Usage: python3 tools/seed_eval.py [seed-dir-name ...]   (writes seeded/RESULTS.md and meta.json['evaluation'])"""
import json
import os
import subprocess
import sys
import time

VERIF = os.path.dirname(os.path.dirname(os.path.abspath(__file__)))
REPO = os.environ.get("VERIF_REPO", "/repo")


def sh(cmd, cwd=None, env=None, timeout=1800):
    try:
        p = subprocess.run(cmd, shell=True, cwd=cwd, capture_output=True, text=True, env=env, timeout=timeout, start_new_session=True)
    except subprocess.TimeoutExpired:
        return 124, "TIMEOUT after %d s: %s" % (timeout, cmd)
    return p.returncode, p.stdout + p.stderr


os.environ.setdefault("VERIF_EVIDENCE_DIR", "/tmp/verif_scratch_evidence")     # never overwrite the committed evidence


def eval_one(name, repo):
    d = os.path.join(VERIF, "seeded", name)
    meta = json.load(open(os.path.join(d, "meta.json")))
    prop = meta["property"]
    env = dict(os.environ, PYTHONPATH=os.path.join(repo, "src"), VERIF_REPO=repo)
    assert sh("git status --porcelain", cwd=repo)[1].strip() == "", "%s must be clean" % repo
    pre, _ = sh("/venv/bin/python %s/demo.py" % d, env=env)
    rc, out = sh("git apply %s/patch.diff" % d, cwd=repo)
    if rc != 0:
        return (name, prop, "patch does not apply", "", "", "", "")
    try:
        post, demo_out = sh("/venv/bin/python %s/demo.py" % d, env=env)
        _, tests = sh("/venv/bin/python -m pytest -q -p no:cacheprovider 2>&1 | tail -1", cwd=repo, env=env)
        t0 = time.time()
        crc, cout = sh("./check %s --tier quick" % prop, cwd=VERIF, env=env)
        wall = time.time() - t0
    finally:
        sh("git checkout -- .", cwd=repo)
    vio = [l for l in cout.splitlines() if l.startswith("VIOLATION")]
    und = [l for l in cout.splitlines() if l.startswith("UNDECIDED")]
    obls = [l.split("obligation=")[1].split()[0][:90] if "obligation=" in l else "" for l in vio]
    deductive = [o for o in obls if not o.startswith("bounded:")]
    ev = {"demo_exit_unchanged": pre, "demo_exit_with_patch": post, "repository_tests_with_patch": tests.strip(), "check": "./check %s --tier quick" % prop,
          "check_exit": crc, "violations": obls[:8], "undecided": len(und), "caught_by_deductive_obligation": bool(deductive), "caught_by_bounded_stand_in": any(o.startswith("bounded:") for o in obls),
          "violations_with_replayed_input": sum(1 for l in vio if "no-failing-input-found" not in l), "violations_without_input": sum(1 for l in vio if "no-failing-input-found" in l),
          "wall_s": round(wall, 1)}
    meta["evaluation"] = ev
    json.dump(meta, open(os.path.join(d, "meta.json"), "w"), indent=1)
    row = (name, prop, "pass" if pre == 0 else "FAIL(%d)" % pre, "fails" if post != 0 else "PASSES", tests.strip(), str(crc),
           ("deductive: " + deductive[0]) if deductive else (("bounded: " + obls[0]) if obls else "MISSED"))
    print(row, flush=True)
    return row


def main():
    args = sys.argv[1:]
    jobs = 1
    if args and args[0].startswith("--jobs="):
        jobs = int(args.pop(0).split("=")[1])
    names = args or sorted(os.listdir(os.path.join(VERIF, "seeded")))
    names = [n for n in names if os.path.exists(os.path.join(VERIF, "seeded", n, "patch.diff"))]
    if jobs == 1:
        rows = [eval_one(n, REPO) for n in names]
    else:
        # one scratch worktree of REPO's HEAD per worker (removed afterwards); the checks read it through VERIF_REPO
        import queue
        from concurrent.futures import ThreadPoolExecutor
        q = queue.Queue()
        trees = []
        for i in range(jobs):
            wt = "/tmp/wt/%s%d" % (os.environ.get("SEED_WT_PREFIX", "se"), i)
            sh("git -C %s worktree remove --force %s" % (REPO, wt))
            rc, out = sh("git -C %s worktree add --detach %s HEAD" % (REPO, wt))
            assert rc == 0, out
            trees.append(wt)
            q.put(wt)

        def work(n):
            wt = q.get()
            try:
                return eval_one(n, wt)
            finally:
                q.put(wt)
        try:
            with ThreadPoolExecutor(jobs) as ex:
                rows = list(ex.map(work, names))
        finally:
            for wt in trees:
                sh("git -C %s worktree remove --force %s" % (REPO, wt))
    # rows of seeds not evaluated in this run are kept from the existing table
    path = os.path.join(VERIF, "seeded", "RESULTS.md")
    have = {r[0]: r for r in rows}
    if os.path.exists(path):
        for line in open(path):
            c = [x.strip() for x in line.strip().strip("|").split(" | ")]
            if len(c) == 7 and c[0] not in have and os.path.exists(os.path.join(VERIF, "seeded", c[0], "patch.diff")):
                have[c[0]] = tuple(c)

    def key(n):
        a, b = n.split("-")
        return (a, int(b))
    rows = [have[n] for n in sorted(have, key=key)]
    with open(path, "w") as f:
        f.write("# Seeded property-breaking changes vs the checks (quick tier)\n\n| seed | property | demo (unchanged) | demo (patched) | repo tests (patched) | check exit | first catching obligation |\n|---|---|---|---|---|---|---|\n")
        for r in rows:
            f.write("| " + " | ".join(r) + " |\n")


if __name__ == "__main__":
    main()
