"""Evaluate the seeded property-breaking changes under /verif/seeded against the checks.
For each seed: demo on the unchanged tree (must pass), apply the patch to /repo, demo (must fail), the repository's own
tests (must pass), the property's check (should exit 1 with a VIOLATION line), then `git checkout -- .`.
Usage: python3 tools/seed_eval.py [seed-dir-name ...]   (writes seeded/RESULTS.md and meta.json['evaluation'])"""
import json
import os
import subprocess
import sys
import time

VERIF = os.path.dirname(os.path.dirname(os.path.abspath(__file__)))
REPO = os.environ.get("VERIF_REPO", "/repo")


def sh(cmd, cwd=None, env=None, timeout=1800):
    p = subprocess.run(cmd, shell=True, cwd=cwd, capture_output=True, text=True, env=env, timeout=timeout)
    return p.returncode, p.stdout + p.stderr


os.environ.setdefault("VERIF_EVIDENCE_DIR", "/tmp/verif_scratch_evidence")     # never overwrite the committed evidence


def main():
    names = sys.argv[1:] or sorted(os.listdir(os.path.join(VERIF, "seeded")))
    rows = []
    for name in names:
        d = os.path.join(VERIF, "seeded", name)
        if not os.path.isdir(d) or not os.path.exists(os.path.join(d, "patch.diff")):
            continue
        meta = json.load(open(os.path.join(d, "meta.json")))
        prop = meta["property"]
        env = dict(os.environ, PYTHONPATH=os.path.join(REPO, "src"))
        assert sh("git status --porcelain", cwd=REPO)[1].strip() == "", "/repo must be clean"
        pre, _ = sh("/venv/bin/python %s/demo.py" % d, env=env)
        rc, out = sh("git apply %s/patch.diff" % d, cwd=REPO)
        if rc != 0:
            rows.append((name, prop, "patch does not apply", "", "", "", ""))
            continue
        try:
            post, demo_out = sh("/venv/bin/python %s/demo.py" % d, env=env)
            _, tests = sh("/venv/bin/python -m pytest -q -p no:cacheprovider 2>&1 | tail -1", cwd=REPO)
            t0 = time.time()
            crc, cout = sh("./check %s --tier quick" % prop, cwd=VERIF)
            wall = time.time() - t0
        finally:
            sh("git checkout -- .", cwd=REPO)
        vio = [l for l in cout.splitlines() if l.startswith("VIOLATION")]
        und = [l for l in cout.splitlines() if l.startswith("UNDECIDED")]
        obls = [l.split("obligation=")[1].split()[0][:90] if "obligation=" in l else "" for l in vio]
        deductive = [o for o in obls if not o.startswith("bounded:")]
        ev = {"demo_exit_unchanged": pre, "demo_exit_with_patch": post, "repository_tests_with_patch": tests.strip(), "check": "./check %s --tier quick" % prop,
              "check_exit": crc, "violations": obls[:8], "undecided": len(und), "caught_by_deductive_obligation": bool(deductive), "caught_by_bounded_stand_in": any(o.startswith("bounded:") for o in obls),
              "wall_s": round(wall, 1)}
        meta["evaluation"] = ev
        json.dump(meta, open(os.path.join(d, "meta.json"), "w"), indent=1)
        rows.append((name, prop, "pass" if pre == 0 else "FAIL(%d)" % pre, "fails" if post != 0 else "PASSES", tests.strip(), str(crc),
                     ("deductive: " + deductive[0]) if deductive else (("bounded: " + obls[0]) if obls else "MISSED")))
        print(rows[-1], flush=True)
    with open(os.path.join(VERIF, "seeded", "RESULTS.md"), "w") as f:
        f.write("# Seeded property-breaking changes vs the checks (quick tier)\n\n| seed | property | demo (unchanged) | demo (patched) | repo tests (patched) | check exit | first catching obligation |\n|---|---|---|---|---|---|---|\n")
        for r in rows:
            f.write("| " + " | ".join(r) + " |\n")


if __name__ == "__main__":
    main()
