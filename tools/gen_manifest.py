"""Regenerate MANIFEST.json from the property registry (run under python3-vt):  python3-vt tools/gen_manifest.py"""
import json
import os
import sys

VERIF = os.path.dirname(os.path.dirname(os.path.abspath(__file__)))
sys.path.insert(0, VERIF)
from vcore.properties import PROPS  # noqa: E402
from vcore.manifest_info import INFO, NOT_APPLICABLE  # noqa: E402

checks = []
for pid in sorted(PROPS):
    if pid not in INFO:
        continue
    i = INFO[pid]
    checks.append({
        "property_id": pid,
        "quick_cmd": "./check %s --tier quick" % pid,
        "thorough_cmd": "./check %s --tier thorough" % pid,
        "evidence_file": "evidence/%s.json" % pid,
        "replay_cmd_template": "./check %s --replay {path}" % pid,
        "engine": i["engine"],
        "level_claimed": {"category": PROPS[pid].level, "text": i["level_text"], "design_ref": i["design_ref"]},
        "level_note": i["level_note"],
        "technique": i["technique"],
    })
na = [{"property_id": k, "reason": v} for k, v in sorted(NOT_APPLICABLE.items()) if k not in {c["property_id"] for c in checks}]
m = {
    "version": 1,
    "setup_cmd": "sh ./setup.sh",
    "hooks": {"guard": "GUS_FR_PY_AB_VERIF", "enable": "no hooks are needed: contracts are sidecar files under /verif/contracts, the repository is read with ast on every run",
              "baseline_off_cmd": "cd /repo && /venv/bin/python -m pytest -ra -q -p no:cacheprovider --timeout=900 --continue-on-collection-errors",
              "source_commits": [], "add_only": True},
    "engines": [
        {"name": "pyvc", "path": "pyvc/", "serves_properties": sorted(p for p in INFO if "pyvc" in INFO[p]["engine"]),
         "kind_free_text": "home-made deductive verifier: symbolic execution of the real Python function bodies (read with ast on every run) against sidecar contracts -> verification conditions discharged by z3 (cvc5 on unknown / second opinion)"},
        {"name": "rxvc", "path": "rxvc/", "serves_properties": sorted(p for p in INFO if "rxvc" in INFO[p]["engine"]),
         "kind_free_text": "lexer master-regex tables (dumped from the live classes) as marked regular languages; obligations = emptiness queries decided by a complete DFA procedure (z3 seq theory as second opinion)"},
        {"name": "tmpl", "path": "pyvc/tmpl.py", "serves_properties": sorted(p for p in INFO if "tmpl" in INFO[p]["engine"]),
         "kind_free_text": "structural-domain symbolic execution of the real code generator on symbolic AST nodes -> templates with typed holes; raw-hole obligations in z3 strings; CPython ast.parse as oracle per constructor case"},
    ],
    "checks": checks,
    "not_applicable": na,
    "notes": "Technique family: contract-based deductive verification of the real code. See DESIGN.md. Exit codes: 0 held, 1 VIOLATION, 2 undecided, 3 checker defect.",
}
with open(os.path.join(VERIF, "MANIFEST.json"), "w") as f:
    json.dump(m, f, indent=1)
print("wrote MANIFEST.json with", len(checks), "checks,", len(na), "not_applicable")
