"""Print, for every obligation family generated on the current tree, which properties it is tagged with and which
properties' link lists contain the link that generates it (a review aid for mis-tagged clauses)."""
import collections
import os
import re
import sys

sys.path.insert(0, os.path.dirname(os.path.dirname(os.path.abspath(__file__))))
import vcore.main as M          # noqa: E402
from vcore import properties as P       # noqa: E402

ctx = M.Ctx("quick", 1)
props = {c.id: c() for c in vars(P).values() if isinstance(c, type) and issubclass(c, P.Prop) and getattr(c, "id", "")}
link_users = collections.defaultdict(set)
fam = collections.OrderedDict()
for pid, pr in sorted(props.items()):
    for link in pr.links(ctx):
        link_users[link.__name__].add(pid)
        try:
            obls = ctx.memo(link.__name__, lambda link=link: link(ctx))
        except Exception as e:      # noqa
            print("link", link.__name__, "failed", e)
            continue
        for o in obls:
            key = re.sub(r"#p\d+|\[[^\]]*\]|\d+", "#", o.id)[:110]
            fam.setdefault((link.__name__, key), set()).update(o.props)
for (ln, key), tags in fam.items():
    users = link_users[ln]
    print("%-22s %-112s tags=%s  untagged-users=%s" % (ln, key, ",".join(sorted(tags)), ",".join(sorted(users - tags))))
