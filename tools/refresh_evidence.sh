#!/bin/sh
# re-run every registered quick check on /repo's current tree (4 at a time) so that the committed evidence files come
# from the unchanged tree; prints the exit code of each check
cd "$(dirname "$0")/.."
if [ -n "$(git -C /repo status --porcelain)" ]; then echo "/repo is not clean" >&2; exit 1; fi
printf '%s\n' C01 C02 C03 C05 C06 C07 C08 C09 C10 C11 C12 C13 C14 C15 C16 C17 C18 | xargs -P 4 -I{} sh -c './check {} --tier quick >/tmp/refresh_{}.log 2>&1; echo "{} exit=$?"'
