"""Behaviour-preserving refactors under /verif/benign must raise NO alarm: every check exits 0 with them applied.
Usage: python3 tools/benign_eval.py [name ...]  (writes benign/RESULTS.md)"""
import json
import os
import subprocess
import sys

VERIF = os.path.dirname(os.path.dirname(os.path.abspath(__file__)))
REPO = os.environ.get("VERIF_REPO", "/repo")
PROPS = ["C01", "C02", "C03", "C05", "C06", "C07", "C08", "C09", "C10", "C11", "C12", "C13", "C14", "C15", "C16", "C17", "C18"]


def sh(cmd, cwd=None):
    p = subprocess.run(cmd, shell=True, cwd=cwd, capture_output=True, text=True)
    return p.returncode, p.stdout + p.stderr


os.environ.setdefault("VERIF_EVIDENCE_DIR", "/tmp/verif_scratch_evidence")     # never overwrite the committed evidence


def main():
    names = sys.argv[1:] or sorted(d for d in os.listdir(os.path.join(VERIF, "benign")) if os.path.isdir(os.path.join(VERIF, "benign", d)))
    rows = []
    for name in names:
        d = os.path.join(VERIF, "benign", name)
        assert sh("git status --porcelain", cwd=REPO)[1].strip() == "", "/repo must be clean"
        rc, out = sh("git apply %s/patch.diff" % d, cwd=REPO)
        if rc != 0:
            rows.append((name, "patch does not apply", "", ""))
            continue
        try:
            _, tests = sh("/venv/bin/python -m pytest -q -p no:cacheprovider 2>&1 | tail -1", cwd=REPO)
            res = {}
            notes = []
            procs = {p: subprocess.Popen("./check %s --tier quick" % p, shell=True, cwd=VERIF, stdout=subprocess.PIPE, stderr=subprocess.STDOUT, text=True) for p in PROPS}
            for p, pr in procs.items():
                o, _ = pr.communicate()
                res[p] = pr.returncode
                notes += [l[:160] for l in o.splitlines() if l.startswith(("VIOLATION", "CHECKER"))][:2]
        finally:
            sh("git checkout -- .", cwd=REPO)
        bad = {p: r for p, r in res.items() if r != 0}
        rows.append((name, tests.strip(), "all 17 checks exit 0" if not bad else "NON-ZERO: %s" % bad, "; ".join(notes)[:300]))
        print(rows[-1], flush=True)
    # rows of refactors not evaluated in this run are kept from the existing table
    path = os.path.join(VERIF, "benign", "RESULTS.md")
    have = {r[0]: r for r in rows}
    if os.path.exists(path):
        for line in open(path):
            c = [x.strip() for x in line.strip().strip("|").split(" | ")]
            if len(c) >= 3 and c[0] not in have and os.path.isdir(os.path.join(VERIF, "benign", c[0])):
                have[c[0]] = tuple((c + [""])[:4])
    rows = [have[n] for n in sorted(have)]
    with open(os.path.join(VERIF, "benign", "RESULTS.md"), "w") as f:
        f.write("# Behaviour-preserving refactors vs the checks (quick tier): no alarm expected\n\n| refactor | repo tests | checks | notes |\n|---|---|---|---|\n")
        for r in rows:
            f.write("| " + " | ".join(r) + " |\n")


if __name__ == "__main__":
    main()
