"""Seed sweep of the bounded stand-ins (to flush out discrepancies between the reference semantics and the real code that
are NOT defects before they can show up as false alarms).  python3-vt tools/sweep.py [first_seed] [n_seeds]"""
import json
import os
import sys

VERIF = os.path.dirname(os.path.dirname(os.path.abspath(__file__)))
sys.path.insert(0, VERIF)
from vcore import native  # noqa: E402

first = int(sys.argv[1]) if len(sys.argv) > 1 else 100
n = int(sys.argv[2]) if len(sys.argv) > 2 else 48
total = {"pipeline": 0, "tv": 0, "mutants": 0}
for base in range(first, first + n, 12):
    seeds = list(range(base, min(base + 12, first + n)))
    for cmd, key, cnt in (("pipeline_diff", "pipeline", 800), ("tv_diff", "tv", 1000), ("mutants_diff", "mutants", 100)):
        rs = native.parallel([{"cmd": cmd, "count": cnt, "seed": s, "limit": 2} for s in seeds], workers=12, timeout=7200)
        for s, r in zip(seeds, rs):
            f = r["failures"]
            total[key] += r.get("evaluations", 0) or r.get("stats", {}).get("calls", 0) or r.get("stats", {}).get("mutants", 0)
            if f:
                print("SEED", s, cmd, json.dumps(f)[:3000], flush=True)
    print("done seeds", seeds, total, flush=True)
print("SWEEP FINISHED", total)
