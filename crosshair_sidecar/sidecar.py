"""CrossHair stand-in (thorough tier, labelled bounded): icontract contracts on sidecar wrappers of the REAL binning /
stats functions, searched symbolically by CrossHair (z3, per-path budget) with real float semantics.
PYTHONPATH must contain /repo/src.  Run:  crosshair check --analysis_kind=icontract sidecar.<fn>"""
import math
from typing import List, Optional, Tuple

import icontract

import pyab_experiment.binning.binning as b
import pyab_experiment.utils.stats as st


@icontract.require(lambda alpha: 1e-9 < alpha < 1 - 1e-9)
@icontract.ensure(lambda result: result >= 0)
@icontract.ensure(lambda alpha, result: math.isclose(result, st.probit(1 - alpha), rel_tol=1e-6, abs_tol=1e-9))
def probit(alpha: float) -> float:
    return st.probit(alpha)


@icontract.require(lambda n, p, confidence: 1 <= n <= 10**9 and 0 <= p <= 1 and 0.001 < confidence < 0.999)
@icontract.ensure(lambda result: result[0] <= result[1])
def confidence_interval_ac(n: int, p: float, confidence: float) -> Tuple[float, float]:
    return st.confidence_interval(n, p, confidence, "agresti-coull")


@icontract.require(lambda n, p, confidence: 1 <= n <= 10**9 and 0 <= p <= 1 and 0.001 < confidence < 0.999)
@icontract.ensure(lambda result: result[0] <= result[1])
def confidence_interval_wald(n: int, p: float, confidence: float) -> Tuple[float, float]:
    return st.confidence_interval(n, p, confidence, "wald")


@icontract.require(lambda weights: 1 <= len(weights) <= 4 and all(0 <= w <= 1000 for w in weights) and sum(weights) > 0)
@icontract.ensure(lambda weights, result: 0 <= result < len(weights) and weights[result] > 0)
def choice_index(key: str, weights: List[int]) -> int:
    """the index selected by the real deterministic_choice for integer weights: in range, never a zero-weight group"""
    pop = list(range(len(weights)))
    return b.deterministic_choice(key, pop, list(weights))


@icontract.require(lambda key: all(ord(c) < 0x110000 and not (0xD800 <= ord(c) <= 0xDFFF) for c in key))
@icontract.ensure(lambda result: 0.0 <= result < 1.0)
def proba(key: str) -> float:
    return b.deterministic_proba(key)
